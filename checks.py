# Single source of truth for what bin/vcheck runs per property and what
# bin/genmanifest writes into MANIFEST.json.  Pure data + tiny helpers.

REAL_COMMON = ["github.com/slackhq/nebula compiled from /repo's working tree (in-package harness via go test -overlay)"]

# package key -> (import path, directory under /repo, build tags, race)
PACKAGES = {
    "nebula":    {"path": "github.com/slackhq/nebula", "dir": "", "tags": "verif", "race": False},
    "handshake": {"path": "github.com/slackhq/nebula/handshake", "dir": "handshake", "tags": "", "race": False},
    "udp":       {"path": "github.com/slackhq/nebula/udp", "dir": "udp", "tags": "", "race": False},
    "e2e":       {"path": "github.com/slackhq/nebula/e2e", "dir": "e2e", "tags": "e2e_testing", "race": True},
}

def tier(runs, budget_s, shrink_s=15, recheck=50, workers=16):
    return {"runs": runs, "budget_s": budget_s, "shrink_s": shrink_s, "recheck": recheck, "workers": workers}

CHECKS = {}
HOOK_COMMITS = ["3be429e", "7e2608d", "61c0b23", "eac9293", "cfa1c30", "8677d1a", "a488376", "65f3410"]

def check(pid, **kw):
    kw.setdefault("level", "exploration")
    kw.setdefault("params", {})
    kw.setdefault("env", {})
    CHECKS[pid] = kw

check("C11",
    pkg="nebula", engine="C-component", scenarios=["C11.link"],
    quick=tier(60000, 25), thorough=tier(400000, 600, shrink_s=60),
    technique="deterministic simulation: seeded lossy/duplicating/reordering link + attacker pre-checks + byzantine counter jumps drive the real replay window in lock-step with a reference model",
    rule="one run = one window size/start region/fault mix drawn from the tape and a packet history of 200-2000 (thorough: up to 20000) counters through the simulated link; distinct = distinct abstract trace hash (configuration + log-bucketed outcome mix); non-trivial = the run produced in-window reordered accepts AND duplicate rejects AND out-of-window rejects",
    level_text="Seeded search over delivery histories (drop, duplicate, jitter, near/beyond-window delay, long hold, burst loss, attacker replays and pre-checks, authenticated counter jumps, start regions at 1 / warm-up edge / word boundaries / nonce ceiling / 2^64) with a lock-step reference model of the statement; every Update and Check result, the highest counter, the window bits and a never-pre-checked twin instance are compared after every delivery. Evidence, not proof.",
    level_note="Trusted: the ~40-line reference model (accepted set + maximum + window rule) and the harness link simulator. The real Bits type is exercised directly (no stub); metrics counters are the real go-metrics registry.",
    real=["nebula.Bits (NewBits/Check/Update)"], stub=["network link (simulated)", "packet authentication (attacker restricted to counters that were really sent)"],
    assumptions=["counters delivered to Update are those of authentic packets; forged counters only reach Check"],
)

check("C33",
    pkg="nebula", engine="C-component", scenarios=["C33.wheel"],
    quick=tier(60000, 25), thorough=tier(300000, 600, shrink_s=60),
    technique="deterministic simulation: seeded irregular simulated clock (sub-tick bursts, long gaps, stalls beyond a revolution) drives the real TimerWheel/LockingTimerWheel against a reference of the statement",
    rule="one run = tick/span pair (production pairs and random ones) and 100-800 (thorough: up to 6300) advance+add steps; distinct = distinct abstract trace hash (configuration + bucketed add/gap mix); non-trivial = run mixed sub-tick advances with gaps longer than a tick multiple / a full revolution and >10 adds",
    level_text="Seeded search over add/advance histories on a simulated clock with an independent reference (earliest = add time + timeout rounded up to tick, capped at span; latest = earliest + 2 ticks): every item exactly once, never early, present at the first advance at or after its latest time, nothing lost after a full span. Evidence, not proof.",
    level_note="Trusted: the reference arithmetic in the harness. Precondition of the statement is honoured: every Add follows an Advance to the same instant. timerCacheMax (50000) is not reached; the item cache is exercised only below that bound.",
    real=["nebula.TimerWheel", "nebula.LockingTimerWheel"], stub=["clock (simulated instants passed to Advance)"],
    assumptions=["single caller (the wheel documents that it is not concurrency safe); LockingTimerWheel is exercised sequentially"],
)

check("C28",
    pkg="nebula", engine="A-netsim", scenarios=["C28.mesh", "C28.gosched"], scenario_weight={"C28.gosched": 2},
    quick=tier(1500, 35), thorough=tier(60000, 900, shrink_s=120),
    technique="deterministic whole-overlay simulation (real nodes, simulated network/clock/tun, seeded faults and operator) with the hostmap invariant evaluated on every node after every event",
    rule="one run = a 2-4 node overlay (static or lighthouse discovery, multi-address peers, both curves) living 20-60 s (thorough: up to 230 s) of simulated time under drop/dup/reorder/delay/partition/stall/sendto faults, rehandshakes, closes, restarts, restarts with a re-issued certificate sharing only some addresses, direct deletes and promotions (including promotion right after deletion); distinct = distinct abstract trace hash; non-trivial = some address held >= 3 simultaneous tunnels",
    level_text="Seeded search over tunnel add/remove/promote/relay histories produced by real handshakes and teardown paths on real nodes; after every simulator event every node's Hosts/moreHosts/Indexes/RemoteIndexes/Relays are checked against the statement (primary heads its list, <=5 distinct live owners, everything reachable is live, removed tunnels unreachable forever, DeleteHostInfo's reported value equals ground truth computed before the call). Evidence, not proof. Plus engine B node-level interleavings (scenario C28.gosched): after a tape-drawn single-threaded prelude on a fault-free pair (pending handshake with queued packets / reply in flight / crossing handshakes / established), the roles of each node (udp reader delivering the held datagrams — in half of the runs two reader routines per node working concurrently, the second possibly on a duplicate of a datagram the first is handling —, tun reader sending marker packets, handshake timer, connection-manager tick, a control call) run as real goroutines parked at every lock acquisition of HostMap / HandshakeManager / per-handshake / LightHouse / RemoteList / RelayState / conntrack mutexes (verifRWMutex, tag verif) and released one at a time from the tape; then the pair settles for 15 s. the C28 invariant is evaluated on both nodes after the interleaved phase and after every event of the settle phase.",
    level_note="Trusted: the harness wiring that mirrors Main (same constructors and order, no goroutines), the simulated socket/tun, and the invariant checker. Goroutine interleavings inside one node are not explored by this engine (single driver).",
    real=["HostMap, HandshakeManager, handshake.Machine, connectionManager, LightHouse, relayManager, Interface packet paths, Firewall, PKI, config reload (all real, wired like Main)"],
    stub=["UDP socket (simConn)", "tun device (simTun)", "goroutine loop shells (driver calls the loop bodies)", "wall clock (synctest bubble)", "crypto/rand (cryptotest seeded)"],
    assumptions=["single-threaded driver: no intra-node goroutine interleavings"],
)

A_REAL = ["HostMap, HandshakeManager, handshake.Machine, connectionManager, LightHouse, relayManager, Punchy, Interface packet paths (readOutsidePackets/consumeInsidePacket), Firewall, PKI, config reload — all real, wired like Main"]
A_STUB = ["UDP socket (simConn)", "tun device (simTun)", "goroutine loop shells (the driver calls the loop bodies as events)", "wall clock (synctest bubble)", "crypto/rand (cryptotest seeded)", "DNS/host interface enumeration"]
A_NOTE = "Trusted: the harness wiring that mirrors Main (same constructors and order, no goroutines), the simulated socket/tun/network, and the oracle. Goroutine interleavings inside one node are not explored by this engine (single driver goroutine)."
A_ASSUME = ["single-threaded driver: no intra-node goroutine interleavings"]

def engine_a(pid, **kw):
    kw.setdefault("pkg", "nebula")
    kw.setdefault("engine", "A-netsim")
    kw.setdefault("real", A_REAL)
    kw.setdefault("stub", A_STUB)
    kw.setdefault("level_note", A_NOTE)
    kw.setdefault("assumptions", A_ASSUME)
    kw.setdefault("quick", tier(1500, 35))
    kw.setdefault("thorough", tier(60000, 900, shrink_s=120))
    check(pid, **kw)

engine_a("C29",
    scenarios=["C29.mesh", "C29.gosched"], scenario_weight={"C29.gosched": 2},
    technique="deterministic whole-overlay simulation with the tunnel-index random source squeezed to 3-6 bits (collision/zero/retry branches constantly taken); index-uniqueness invariant after every event",
    rule="one run = a 3-5 node overlay (lighthouse, relay topology with blocked direct paths) for 15-45 s (thorough: up to 150 s) with index draws limited to 3-6 bits incl. zero (engine B scenario: 2-6 bits, in half of the runs an echoing source that repeats the previous value in a third of the draws), rehandshakes, closes, restarts, stalls, partitions; distinct = distinct abstract trace hash; non-trivial = index draws exceeded 3x the index space and a zero was drawn",
    level_text="Seeded search over handshake/teardown/relay histories with a tiny index space: after every event every node's pending and established index maps and relay index map are checked (non-zero, one owner per index, one index per tunnel, no index shared between a pending and an established tunnel, an index or remote-index entry disappears only with its owner). Evidence, not proof. Goroutine-level races of the allocation paths are the engine-B part (not in this check). Plus engine B node-level interleavings (scenario C29.gosched): after a tape-drawn single-threaded prelude on a fault-free pair (pending handshake with queued packets / reply in flight / crossing handshakes / established), the roles of each node (udp reader delivering the held datagrams — in half of the runs two reader routines per node working concurrently, the second possibly on a duplicate of a datagram the first is handling —, tun reader sending marker packets, handshake timer, connection-manager tick, a control call) run as real goroutines parked at every lock acquisition of HostMap / HandshakeManager / per-handshake / LightHouse / RemoteList / RelayState / conntrack mutexes (verifRWMutex, tag verif) and released one at a time from the tape; then the pair settles for 15 s. index space squeezed to 3-6 bits; the C29 invariant is evaluated on both nodes after the interleaved phase and after every event of the settle phase.",
)

engine_a("C09",
    scenarios=["C09.mesh"],
    technique="deterministic whole-overlay simulation (wrong responder, address-claiming certified peer, v1/v2, multi-address, relay/lighthouse discovery, transport faults) with tunnel-to-certificate binding checked after every event against simulator ground truth",
    rule="one run = 3-6 node overlay for 15-45 s (thorough: up to 150 s) with optional wrong responder at the expected underlay address and optional peer whose certificate also lists another node's address; distinct = distinct abstract trace hash; non-trivial = at least one session was matched to its ground-truth peer by index cross-match + decrypt probe in a run with a wrong responder or an address claimer",
    level_text="Seeded search over discovery/handshake histories; after every event every reachable tunnel must carry a CA-signed certificate, its recorded addresses must equal the certificate's in order, every address it serves must be in that certificate, none may be the node's own, and the node actually holding the session keys (found by index cross-match and a decrypt probe) must own that certificate. Evidence, not proof.",
)

engine_a("C12",
    scenarios=["C12.mesh", "C12.gosched"],
    scenario_weight={"C12.gosched": 12},
    technique="deterministic whole-overlay simulation with transport duplication and an on-path attacker re-injecting exact copies of captured datagrams (direct and relayed); every delivery is observed (state digest before/after) and each datagram may be acted on at most once; plus a seeded goroutine scheduler (real goroutines parked at verif-tag yield points inside Decrypt/VerifyRelay, one released at a time from the tape) interleaving concurrent receivers of the same and neighbouring counters on one real tunnel",
    rule="one run = 2-4 node overlay (static/lighthouse/relay) for 10-35 s (thorough: up to 120 s) with high duplication, 40-200 attacker replays (1-3 copies each, from the original or a foreign source address), rehandshakes and bursts; in half of the runs datagrams reaching a node within a drawn window are handed over as one receive batch with one flush, and the tun device refuses the k-th write of a flush (tunerr); distinct = distinct abstract trace hash; non-trivial = replays were injected, >10 distinct datagrams were acted on and >5 workload packets delivered",
    level_text="Seeded search over delivery/replay histories: every delivery of an encrypted datagram is observed; a datagram (by content) may change the receiver's state, reach its tun or trigger a non-recv_error reply at most once per node, and every uniquely marked workload packet reaches the destination tun at most once. C12.gosched: 2-6 receiver goroutines submit genuine direct and relay-authenticated packets with overlapping counters (repeats, neighbours, window edge, jumps) to ConnectionState.Decrypt/VerifyRelay; every interleaving of the check / authenticate / update phases is a tape choice; a counter accepted twice (during or after the concurrent phase) or a still-in-window genuine counter never accepted is a violation. Evidence, not proof.",
)

engine_a("C14",
    scenarios=["C14.mesh"],
    technique="deterministic whole-overlay simulation with an on-path attacker forging variants of captured encrypted datagrams (bit flips, truncation/extension, counter/index/type substitution, cross-tunnel splices, peer or foreign source); receiver state digest must be unchanged and nothing delivered or answered",
    rule="one run = 2-4 node overlay (static/lighthouse/relay; live tunnels carrying data, lighthouse, test, control, relay and close traffic) for 10-35 s (thorough: up to 120 s) with 60-260 forged deliveries; distinct = distinct abstract trace hash; non-trivial = >20 forgeries of >=5 mutation classes were delivered to nodes holding tunnels",
    level_text="Seeded search over forged-packet histories: for every forged delivery the receiver's full observable state (hostmap shape, per-tunnel remote/roaming, liveness flags, replay window, send counter, relay state, pending handshakes, lighthouse cache, relay usage), its tun output and its outbox (a recv_error to the datagram's source excepted) are compared before/after. Forgeries whose type field became Handshake or RecvError are outside the statement (those two types are unauthenticated by design) and are skipped, not judged. Evidence, not proof.",
)

engine_a("C10",
    scenarios=["C10.mesh"],
    technique="deterministic whole-overlay simulation with an on-path attacker that stores every first handshake message and re-delivers it later from its original source; hostmap shape and responder output compared around every stage-1 delivery",
    rule="one run = 2-3 node static overlay (v1/v2, both curves, no preferred_ranges) for 15-45 s (thorough: up to 150 s) holding several tunnels per pair through forced rehandshakes from both sides, local and remote closes, partitions, plus 30-150 stage-1 replays and natural transport duplicates; distinct = distinct abstract trace hash; non-trivial = the run contained both a replay of a still-held tunnel's first message and a first message older than the existing responder-side primary",
    level_text="Seeded search over handshake/replay histories: for every first handshake message delivered (replayed by the attacker, duplicated by the network, or genuine) the responder's pre-state decides the case. If it still holds the tunnel created from exactly those bytes, the set of tunnels and every address's ordered tunnel list must be unchanged and the only output allowed is the byte-identical original reply to the source. If its primary for that peer was accepted as responder and reports a time >= the message's (learned when the message first created a tunnel), nothing may be created or replaced. Replays against initiator-side primaries are not judged (the statement excludes them). Evidence, not proof. Limit: peer-reported times come from the single bubble clock.",
)

check("C13",
    pkg="nebula", engine="B-gosched", scenarios=["C13.gosched", "C13.gosched.fips"],
    scenario_env={"C13.gosched.fips": {"GODEBUG": "fips140=on"}},
    quick=tier(40000, 30), thorough=tier(1500000, 900, shrink_s=60),
    technique="deterministic simulation of goroutine interleavings: real sender goroutines on one real tunnel are parked at verif-tag yield/lock points (counter reserved, before seal, before writeLock) and released one at a time by a seeded scheduler; a recorder in the data-plane cipher's seat sees every (key, nonce) pair in call order; run in normal and FIPS (increasing-nonce AEAD, writeLock) mode",
    rule="one run = one real tunnel (built by a real handshake in the whole-overlay simulator) whose send counter is preset (as left by the handshake / mid-range / 0-14 below the ceiling / at or just above the ceiling), then 2-8 goroutines each doing 1-5 sends drawn from data (sendInsideEncrypt), test and close (sendNoMetrics), relay (prepareSendVia); distinct = distinct interleaving (sequence of task@site scheduling decisions); non-trivial = more than two sends and more scheduling steps than tasks",
    level_text="Seeded search over sender interleavings: among the encryptions the cipher accepted no counter occurs twice, none is at or beyond the exhaustion ceiling, all are above the counters consumed before the concurrent phase; every emitted datagram carries a counter the cipher was handed and opens at the peer with exactly that nonce; successful encryptions and emitted datagrams agree in number; in FIPS mode counters reach the cipher in strictly increasing order (the real TLS1.3 AEAD would also panic, which is caught as a violation) and a lock-wait cycle is a detected deadlock. Evidence, not proof.",
    level_note="Trusted: the scheduler (exactly one task runs at a time; hooks only at the tagged sites, so code between two sites is atomic in this model), the recorder, and the tunnel setup via engine A. Preemption inside EncryptDanger or between sites that carry no hook is not explored; the atomic Add itself is a single hardware operation.",
    real=["ConnectionState.NextMessageCounter / messageCounter", "Interface.sendInsideEncrypt, sendNoMetrics, prepareSendVia (real, on a real tunnel)", "noiseutil AES-GCM, ChaCha20-Poly1305 and FIPS TLS1.3-GCM cipher states incl. the ceiling check"],
    stub=["Go scheduler (replaced at the tagged sites by the seeded scheduler)", "UDP socket (simConn)", "relay table entry for the relay sends (constructed by the harness)"],
    assumptions=["interleaving granularity = the tagged yield sites"],
)

engine_a("C31",
    scenarios=["C31.race"],
    technique="deterministic whole-overlay simulation of two nodes handshaking toward each other at seeded offsets under loss/duplication/reordering, with connection-manager ticks interleaved; swap decisions observed around every traffic check; bounded-liveness check in a quiet suffix",
    rule="one run = two racing nodes (optionally behind a lighthouse, v1/v2) starting handshakes 0-120 ms apart, 0-3 rounds of concurrent rehandshakes against the existing tunnel, optional restart of one side, all transport faults, then a quiet suffix (faults off, pings both ways every 400 ms) of 3*(alive+pending_deletion)+8 s; distinct = distinct abstract trace hash; non-trivial = both nodes had a pending handshake for each other at once or their first messages crossed on the wire",
    level_text="Seeded search over delivery interleavings of the four handshake messages and the data behind them: (i) whenever a node's primary tunnel for the peer is complete and held at both ends, a packet sent on it is delivered (synchronous probe every 5th event); (ii) over the whole run at most one of the two nodes changes its primary by a swap decision inside a connection-manager check; (iii) bounded liveness: after the quiet suffix each side holds exactly one tunnel for the other, their indexes cross-match and pings still arrive. Evidence, not proof. The relay variant is not in this check.",
    quick=tier(1500, 40),
)

engine_a("C32",
    scenarios=["C32.pending", "C32.gosched"], scenario_weight={"C32.gosched": 2},
    technique="deterministic simulation of an initiator (real HandshakeManager, timer wheel, firewall, config reload) against a peer that is unreachable / reachable from the k-th attempt, on the simulated clock; wire-level retransmission schedule, pending-state cleanup, queue cap and queue release checked against the statement",
    rule="one run = try interval (50-333 ms) x retries (2-12) x reachability (never, or from attempt k) x 0-150 packets sent while pending (ports inside/outside the outbound rule) x optional outbound-rule reload while queued x optional node stall; distinct = distinct abstract trace hash; non-trivial = at least two transmissions of the first handshake message were observed",
    level_text="Seeded search over retry/queue histories on the simulated clock: every retransmission must be byte-identical, the k-th gap must lie in [k*I,(k+2)*I] (upper bound waived only across an injected stall), at most `retries` transmissions (exactly `retries` when the peer never answers), afterwards the pending entry and its index are gone, the queue never exceeds 100, and after completion the peer's tun receives exactly the queued packets the outbound rules in force at completion allow, once each and in queue order. Evidence, not proof. Plus engine B node-level interleavings (scenario C32.gosched): after a tape-drawn single-threaded prelude on a fault-free pair (pending handshake with queued packets / reply in flight / crossing handshakes / established), the roles of each node (udp reader delivering the held datagrams — in half of the runs two reader routines per node working concurrently, the second possibly on a duplicate of a datagram the first is handling —, tun reader sending marker packets, handshake timer, connection-manager tick, a control call) run as real goroutines parked at every lock acquisition of HostMap / HandshakeManager / per-handshake / LightHouse / RemoteList / RelayState / conntrack mutexes (verifRWMutex, tag verif) and released one at a time from the tape; then the pair settles for 15 s. every marker packet must reach the destination tun at most once, and exactly once when the run contains no close, no handshake timeout and no still-pending handshake at the end (queued packets released exactly once on completion, none lost between the queue snapshot and completion).",
    quick=tier(3000, 35),
)

HS_REAL = ["handshake.Machine (NewMachine/Initiate/ProcessPacket), handshake payload codec, flynn/noise IX, cert.CAPool.VerifyCertificate, cert.Recombine — all real"]
HS_STUB = ["network between the machines (attacker-controlled message pool)", "HandshakeManager/hostmap (not involved; engine A covers them)", "wall clock (synctest bubble)", "crypto/rand (cryptotest seeded)"]
HS_NOTE = "Trusted: the S-hs harness (identity generation, ground-truth trust table by identity kind, message pool) and the oracles. Machines are exercised exactly as HandshakeManager does (fresh responder machine per first message, one initiator machine per session)."
HS_RULE = "one run = a world of 3-9 identities (2-3 honest, optionally untrusted-CA, expired, expiring, not-yet-valid, blocklisted, P-256 twin-blocklisted, key thief, impostor presenting a victim's certificate and public key without the private key (responder only), garbler with an undecodable certificate field; v1/v2/both; Curve25519 or P-256; ChaChaPoly or AES-GCM) with 2-6 sessions and 40-120 (thorough: up to 500) attacker-scheduled deliveries of genuine, replayed, cross-session, truncated, bit-flipped, spliced, ephemeral-substituted and certificate-rewritten messages plus clock advances; distinct = distinct abstract trace hash; non-trivial = a session completed after rejected variants, or certificate-rewriting mutations were delivered in a run with a completion"

def hs_check(pid, **kw):
    kw.setdefault("pkg", "handshake")
    kw.setdefault("engine", "C-component")
    kw.setdefault("scenarios", [pid + ".hs"])
    kw.setdefault("real", HS_REAL)
    kw.setdefault("stub", HS_STUB)
    kw.setdefault("level_note", HS_NOTE)
    kw.setdefault("rule", HS_RULE)
    kw.setdefault("quick", tier(6000, 30))
    kw.setdefault("thorough", tier(400000, 900, shrink_s=90))
    kw.setdefault("assumptions", ["machines are used sequentially (documented as not concurrency safe)"])
    check(pid, **kw)

hs_check("C05",
    pkg={"C05.hs": "handshake", "C05.mesh": "nebula"}, scenarios=["C05.hs", "C05.mesh"],
    technique="deterministic whole-overlay simulation with a certificate thief (an uncertified party presenting a node's certificate, seen on the wire, with a static key of its own) and with reloads that blocklist a peer while the handshake to it is in flight (scenario C05.mesh, real HandshakeManager certificate verifier); and deterministic simulation of concurrent IX sessions between real handshake.Machines with an attacker owning the network (drop/dup/reorder/truncate/flip/splice/replay, forged identities); every completion checked against simulator ground truth",
    level_text="Seeded search over attacker-scheduled message histories: every Result a machine returns must report exactly the certificate its trust check accepted, whose key equals the Noise peer static, owned by an identity the reference trust table accepts at that time; an initiator may complete only on the unmodified reply of a responder that processed its unmodified first message (possession proof) and must report that responder's certificate; no machine completes twice. Responder-side completion on a replayed/forged first message carrying a valid certificate is allowed (IX semantics). Evidence, not proof. C05.mesh (engine A, the C09 world): no node may install a tunnel from a handshake that presented another node's certificate with a foreign static key, whether or not it already holds a tunnel with the certificate's owner; a tunnel to a peer that appears on a node after a reload blocklisted that peer's certificate there is a violation (trust is evaluated when the peer's certificate is verified, not when the handshake was started).")
hs_check("C06",
    technique="deterministic simulation of interleaved IX sessions (all curve/cipher/version mixes, tape-chosen index allocators incl. equal and extreme values); agreement of keys, indexes and message count checked for every session completed at both ends",
    level_text="Seeded search over session interleavings: when both ends of one session complete, each side's sending key must decrypt only with the other side's receiving key (not with its own, not with any machine of another session), remote index = peer's local index in both directions, equal message count, non-zero local indexes. Evidence, not proof.")
hs_check("C07",
    pkg={"C07.hs": "handshake", "C07.mesh": "nebula"}, scenarios=["C07.hs", "C07.mesh"],
    technique="deterministic simulation: before the genuine reply an initiator machine receives 0..n attacker variants (every truncation class, bit flips, low-order/invalid/foreign ephemerals, cross-session bodies, wrong subtype, garbage); if it still reports itself usable the genuine reply must complete it",
    level_text="Seeded search over rejected-then-genuine histories: whenever the genuine reply of an acceptable responder is refused by a machine that never reported Failed(), that is a wedge; once Failed() is true every later input must return ErrMachineFailed and no result. C07.mesh (engine A nodes, hand-delivered): the same history one level up, through the real HandshakeManager of a fault-free pair — an on-path attacker delivers 0-9 rejected variants of the responder's reply (truncations, flips in ephemeral/payload/tag, zero ephemeral, older-session reply, garbage, wrong subtype) with retransmissions and clock steps in between; while the attempt's machine reports itself usable the genuine reply must complete the handshake (tunnel with the responder's index) and the packet queued behind it must reach the peer's tun exactly once. Evidence, not proof.")
hs_check("C02",
    technique="deterministic simulation with an on-path attacker rewriting the certificate bytes that travel in the clear in the first handshake message (structure-aware and blind mutations, P-256 low/high-S twin, foreign certificate, version field), with blocklists naming either twin fingerprint",
    level_text="Seeded search over tampered first messages: a responder that completes must have accepted a certificate whose decoded identity (name, networks, unsafe networks, groups, CA flag, validity, issuer, curve, public key) equals the issued one; the only other signature accepted for unchanged content is the P-256 twin; identities blocklisted directly or through their twin fingerprint never complete in either signature form. The PEM encoding does not cross the simulated network and is outside this check. Evidence, not proof.")

check("C26",
    pkg="udp", engine="C-component", scenarios=["C26.kernel"],
    quick=tier(60000, 25), thorough=tier(2000000, 600, shrink_s=60),
    technique="deterministic fault-injecting simulation of the kernel behind the real batchWriter (sendFn seam): the simulated sendmmsg decodes the prepared mmsghdr/iovec/sockaddr/cmsg arrays and answers with seeded short counts and per-entry errors; oracle over the kernel's view",
    rule="one run = one batch of 0-420 datagrams over 1-6 destinations (v4/v6 destinations on v4 or v6 sockets, destinations sharing an address with another port, the IPv4-mapped spelling of a destination, sizes forming and breaking offload runs, empty and oversized datagrams), GSO on/off, max segments 4/16/63/127, and 0-12 kernel faults (short count at any entry, EIO on an offloaded entry => GSO disable and replay, EIO/ENOBUFS/EPERM/EMSGSIZE/ENETUNREACH/EINVAL on the first remaining entry); distinct = distinct abstract trace hash; non-trivial = at least one kernel fault fired on a batch of more than 3 datagrams",
    level_text="Seeded search over batches x kernel fault sequences: the simulated kernel reads the entries exactly as sendmmsg(2) would (pointer-checked against the input buffers) and the oracle uses only that view: each input datagram accepted at most once, reported count = accepted datagrams, per-destination order preserved, every offloaded entry has one destination, equal segments except a shorter last, at most max segments and 65000 bytes, plain entries carry exactly one datagram, nothing unroutable reaches the kernel. Evidence, not proof.",
    level_note="Trusted: the simulated kernel's decoder and accounting. The real sendmmsg syscall, sockets and the EINTR/ENOBUFS retry loop inside batchWriter.sendmmsg are not executed (sendFn is the seam the code provides for tests).",
    real=["udp.batchWriter.WriteBatch, planRun, writeEntryCmsg, writeSockaddr, prepareWriteMessages"], stub=["sendmmsg(2) (simulated kernel behind batchWriter.sendFn)", "socket"],
    assumptions=["the kernel never reports more entries than it was given and reports entries in order (sendmmsg semantics)"],
)

FW_REAL = ["Firewall (Drop, conntrack, rule tables built through real config parsing), Interface.reloadFirewall via config reload, real HostInfo/CachedCertificate/CAPool from real handshakes, the real inbound/outbound packet paths for the C17 real-path events"]
FW_STUB = ["peers' application traffic (firewall.Packet tuples drawn from the tape)", "none for the routine-local conntrack cache: the real ConntrackCacheTicker goroutine runs on the bubble clock", "UDP socket, tun, clock, randomness as in engine A"]
FW_RULE = "one run = victim node with 1-2 overlay networks, optional unsafe network, default_local_cidr_any on/off, small (1-22 s) or default conntrack timeouts, optional routine-local cache, rules version optionally preset near its wrap, 2-4 peers (names, groups g1-g3, two CAs, multi-address incl. addresses outside the victim's networks, unsafe networks), 0-5 generated rules per direction (single ports, ranges, in one run of 16 also every-port ranges; sibling rules), then 80-280 (thorough: up to 1800) steps of packets through Drop (new tuples, repeated tuples in both directions, tuples claimed by another peer), clock advances around each timeout, reloads (identical, remove a rule, add a rule, new rule set, default_local_cidr_any flipped, re-issued certificate with other unsafe networks, only the conntrack timeouts changed, back to the rule sets before the last change) each followed by 0-3 packets of recent flows mostly in the reply direction, and real-path events (inner packets may be IPv6 with IPv4-mapped addresses; a peer may hold no address inside the victim's networks) (byzantine peer sending crafted inner packets through its tunnel; the victim sending packets with arbitrary addresses); distinct = distinct abstract trace hash; non-trivial = packets passed both by rule and by tracking and something was refused as expired, stale or address-inauthentic"

def fw_check(pid, **kw):
    kw.setdefault("pkg", "nebula")
    kw.setdefault("engine", "C-component")
    kw.setdefault("scenarios", [pid + ".fw"])
    kw.setdefault("real", FW_REAL)
    kw.setdefault("stub", FW_STUB)
    kw.setdefault("rule", FW_RULE)
    kw.setdefault("level_note", "Trusted: the ~120-line reference model (rule evaluator written from the documented semantics, address rule, flow table with last-pass time and original direction) and the S-fw harness. " + A_NOTE)
    kw.setdefault("quick", tier(3000, 35))
    kw.setdefault("thorough", tier(200000, 900, shrink_s=120))
    kw.setdefault("assumptions", A_ASSUME + ["idle gaps are never placed exactly on a timeout boundary by construction of the oracle (strict/non-strict bounds)"])
    check(pid, **kw)

fw_check("C16",
    technique="deterministic simulation of timed packet/reload histories against the real firewall of a node holding real tunnels; every packet that meets no tracked flow compares the real verdict with an independent evaluator of the documented rule semantics (claimed only as the stateless core of the C17-C19 history model)",
    level_text="Sampling of rule configurations x packet tuples x peers riding on the conntrack history simulation: a packet some rule allows must pass (and becomes tracked), a packet no rule allows and no live flow covers must not. This is exploration of configurations, not a proof of the rule evaluator.")
fw_check("C17",
    technique="deterministic simulation with byzantine certified peers sending crafted inner packets through real tunnels, tuples of other peers tracked first, and the node's own outbound packets decrypted by the harness at the peer; address authenticity checked regardless of rules and tracking state",
    level_text="Seeded search over packet histories: whatever the rules and tracked flows, a packet passes the firewall / reaches the tun / leaves toward a peer only if its remote address is a certified address of that peer inside the node's networks or inside the peer's unsafe networks and its local address is one of the node's certified addresses or inside its unsafe networks. Checked at Drop level for every generated tuple and on the real inbound and outbound packet paths. Evidence, not proof.")
fw_check("C18",
    technique="deterministic simulation on the simulated clock: timed flow histories with idle gaps just below/above the TCP, UDP and default timeouts, with and without unrelated flow churn and the routine-local cache, against a reference conntrack (oriented tuple, last-pass time)",
    level_text="Seeded search over timed histories: a packet no rule allows may pass only if the reference holds that exact tuple with last pass no longer ago than its protocol's timeout (plus one cache window when the routine cache is on); after expiry it must not pass until a rule-allowed packet re-creates the flow. Only the stated direction (passes only if) is enforced. Evidence, not proof.")
fw_check("C19",
    technique="deterministic simulation of reload sequences (identical, rule removed/added, new rule sets, rules-version counter preset near its wrap) interleaved with traffic through real config reloads, against a reference that revalidates each tracked flow's original direction under the current rules",
    level_text="Seeded search over reload/traffic histories: a tracked flow lets a rule-less packet through only if the current rules still allow the flow's original direction, otherwise it is forgotten; after the version counter wraps every flow needs a rule again; a flow that is live, still allowed and has seen no rule change since its last packet must not be cut (checked when the routine cache is off). Evidence, not proof.")

engine_a("C30",
    scenarios=["C30.policy"],
    technique="deterministic simulation of a node with 1-3 peers on the simulated clock; every real connection-manager traffic check is wrapped and its effects (removed, close sent, probe sent, handshake started) compared with a decision table evaluated on inputs observed by the harness itself",
    rule="one run = check interval 1-4 s, pending-deletion 1-5 s, inactivity timeout 4-43 s, drop_inactive / disconnect_invalid drawn from the tape and toggled by reload, peers under two CAs some with certificates expiring during the run, 40-200 (thorough: x4) events over 40-160 s (thorough: up to 600 s): inbound/outbound traffic bursts, rehandshakes creating non-primary tunnels, blocklisting, CA removal/restoration, own certificate re-issue, counters preset next to the rekey threshold and the ceiling, node stalls, partitions, transport loss; distinct = distinct abstract trace hash; non-trivial = the run contained checks of alive tunnels and at least one check that had to tear a tunnel down",
    level_text="Seeded search over traffic/clock/reload histories: at each check, blocklisted => removed; invalid and disconnect_invalid => removed; counter at the ceiling => removed; authenticated inbound traffic since the last check (observed by the harness through the replay window, not through nebula's flag) => not removed; a probe was sent at the previous check and still no inbound => removed; any other removal must be a previously marked traffic-less tunnel or an idle primary with drop_inactive and idle >= timeout; a handshake started by the check requires a changed local certificate or a counter past the rekey threshold, and an alive primary with such a reason must start one. Evidence, not proof. Limit: expiry is reached by advancing the shared clock, not by skew.",
    quick=tier(2500, 35),
)

engine_a("C42",
    scenarios=["C42.reload"],
    technique="deterministic simulation of sequences of real config reloads (pki.cert/key/ca/blocklist combinations from the tape) on a node with connected peers; certificates and trust store in use compared after every reload with a reference of the statement, revoked peers checked against a bounded deadline on the simulated clock",
    rule="one run = node starting with v1, v2 or both (Curve25519 or P-256, optionally two networks) and 1-2 connected peers under two CAs, then 1-15 reloads drawn from: re-issue, add/drop a certificate version (incl. a v1/v2 pair sharing a network that is not the primary one of both), changed networks, other curve, mismatched key, expired, garbage, v1 for another key, new key pair; trust store unchanged / CA removed or restored / unreadable bundle / all-expired bundle / peer blocklisted or unblocked; pki.disconnect_invalid false in a third of the runs (then only the blocklisted half of the disconnect rule is judged); distinct = distinct abstract trace hash; non-trivial = at least one certificate reload was accepted and one refused",
    level_text="Seeded search over reload histories: after every reload the curve and primary network never change, a version's networks never change while it is in use, v1 and v2 in use share one public key, the certificates in use are exactly the candidate's when the reference accepts it and exactly the previous ones when it refuses (changed networks/curve, v2 dropped without equal-network v1, unusable material), an unreadable or all-expired CA bundle leaves the previous trust store and blocklist, and a newly blocklisted or untrusted peer is gone from the hostmap within max(check interval, pending-deletion interval)+1.2 s. The case 'adding a v2 certificate with more networks than the v1 in use' is not generated (the statement leaves it open). Evidence, not proof.",
    quick=tier(3000, 35),
)

RELAY_RULE = "one run = 3-5 nodes: node 0 is lighthouse and relay, optionally the last node is a second relay, every endpoint pair lacks a direct underlay path (topology, not a fault), 60-160 marked workload packets between endpoints, transport faults, rehandshakes/closes/restarts/stalls on all legs, plus 20-80 byzantine events (a relay replaying/modifying/re-wrapping inner packets; any node claiming to relay for a peer towards an endpoint); distinct = distinct abstract trace hash; non-trivial = more than 5 relay forwards were judged and more than 3 workload packets were delivered end to end"

engine_a("C15",
    scenarios=["C15.relay"],
    technique="deterministic whole-overlay simulation of relayed tunnels with a byzantine relay (re-sends captured inner packets modified, replayed or under another relay index, authenticated with its own tunnel keys); plaintext-marker scan of every wire datagram and relay tun; byte-exact end-to-end delivery check",
    rule=RELAY_RULE,
    level_text="Seeded search over relayed-traffic histories: (i) no uniquely marked application payload ever appears in clear in any datagram on the simulated wire or on a relay's tun; (ii) every marked packet a tun delivers is byte-identical to what the origin's application sent, arrives only at its destination, at most once, carrying the origin's address, whatever relay index the relay used; (iii) a packet the relay modified (inner body/header flips, truncation, splice, fresh counter) is never delivered, never answered, and leaves the addressed end-to-end tunnel's receive state (replay window, remote, liveness, relay state) unchanged. Evidence, not proof.",
)

engine_a("C39",
    scenarios=["C39.relay"],
    technique="deterministic whole-overlay simulation with byzantine certified endpoints sending crafted relay control messages and relayed data on foreign indexes, am_relay toggled by reload; every forward a node performs is judged against the control messages it really received (decrypted by the harness with the receiving tunnel's key) and against relay-record invariants",
    rule=RELAY_RULE,
    level_text="Seeded search over relay negotiation/forwarding histories: a node emits a forwarded relay datagram only while am_relay is on, only for a packet that arrived on a relay index owned by a live tunnel, only toward a node other than itself and the source, and only if it had received both an authenticated CreateRelayRequest and the matching CreateRelayResponse for that pair; relay records never change type, local index or peer address, never return to PeerRequested, and every relay index points at a live tunnel that owns it. A strict state-transition relation is deliberately not enforced (the code legitimately moves between Requested/Established/Disestablished in most directions). Evidence, not proof.",
)

LH_RULE = "one run = lighthouse (node 0) plus 2-4 peers discovering each other through it, multi-homed peers advertising public/private IPv4 and IPv6 underlay addresses, optional remote allow lists (global and per overlay range, static for the run; in half of the runs the lighthouse really relays and a list may deny the whole primary underlay range except the lighthouse, so that tunnels exist through the relay only), calculated remotes, preferred ranges changed by reload, roaming between a node's addresses, transport faults and tunnel churn, and 20-100 crafted lighthouse messages from a byzantine certified peer (all six message types, v1/v2 encodings, claimed owner = itself / the receiver / a third peer / nobody, 1-14 addresses incl. overlay-range and denied ones, IPv4-mapped IPv6 spellings, global/unique-local/link-local IPv6, relays, missing details); distinct = distinct abstract trace hash; non-trivial = >5 crafted messages delivered, >50 datagram destinations judged and at least one candidate list with >=3 addresses compared"

engine_a("C35",
    scenarios=["C35.lh"],
    technique="deterministic whole-overlay simulation with a byzantine certified peer sending every lighthouse message type through its real tunnels to the lighthouse and to ordinary nodes; lighthouse-cache snapshot, replies and punches compared around each message",
    rule=LH_RULE,
    level_text="Seeded search over discovery histories: at a lighthouse a message may change only the cache entries of the authenticated sender's own addresses and, within them, only the sender's own source slot, and never makes the lighthouse punch; at a non-lighthouse a message from a peer that is not one of its configured lighthouses changes nothing, schedules no punch toward any address it names and is never answered with a lighthouse message; a non-lighthouse never answers a query. Evidence, not proof.",
)
engine_a("C36",
    scenarios=["C36.lh"],
    technique="deterministic whole-overlay simulation with a wire-level invariant on every datagram every node emits (destination outside the node's overlay networks, allowed by an independent evaluation of its remote allow list for the intended peer, not a remote blocked for that pending handshake) plus cache bounds and static-host retention after every event",
    rule=LH_RULE,
    level_text="Seeded search over discovery/roaming histories: the intended peer of each datagram is recovered from the sender's own hostmap / pending handshakes / candidate lists; when several candidates match the datagram must be allowed for at least one (ambiguity can only lose detections); unattributable datagrams are counted, not judged; recv_error replies are outside the statement. After every event no source contributes more than ten addresses or relays per peer, no candidate lies in the node's overlay range, and a static host keeps its configured addresses. Allow lists are not reloaded during a run (the statement does not say whether an established tunnel's remote is re-validated). Evidence, not proof.",
)
engine_a("C37",
    scenarios=["C37.lh"],
    technique="deterministic whole-overlay simulation; after every event every remote list (lighthouse cache and tunnel candidate lists) is recomputed by a reference from the raw per-source cache and compared (set, order, relays)",
    rule=LH_RULE,
    level_text="History invariant: CopyAddrs(preferred ranges) must equal the deduplicated union of learned, reported and resolved addresses of all sources minus blocked ones, ordered preferred ranges first, then IPv6, public IPv4, private IPv4, each by address then port; relay candidates must equal the sorted deduplicated union of reported relays. The combinatorial space of lists is only sampled through these histories (claimed only as a by-product of the history simulation). Evidence, not proof.",
)

engine_a("C44",
    scenarios=["C44.dns"],
    technique="deterministic whole-overlay simulation of a serve_dns lighthouse with peers joining through real (and failing) handshakes under faults; the real DNS handler is called with seeded queries at seeded points of the history and every answer is checked against the set of certificates whose handshake completed at that node",
    rule="one run = lighthouse with serve_dns, 2-4 peers with mixed-case certificate names and IPv4/IPv6 overlay addresses, optional peer under an untrusted CA and optional expired peer reusing an honest name, transport faults, rehandshakes/closes/restarts (the lighthouse included), serve_dns switched off and on again by reloads in half of the runs, and 40-160 DNS queries (A, AAAA, TXT, MX, multi-question; names in random case, unknown names, address names) from loopback, the node's own overlay address, a peer's overlay address and a foreign address; distinct = distinct abstract trace hash; non-trivial = at least one A answer and one NXDOMAIN were produced",
    level_text="Seeded search over join/query histories: every A/AAAA answer must carry an address of that family taken from a certificate with that name (case-insensitive) whose handshake completed at the lighthouse (or its own), names that never passed verification are never answered, NXDOMAIN is returned only when no queried name is known, certificate details (TXT) go only to loopback or own-overlay clients and must be the certificate of the peer holding the queried address. The responder's socket is stubbed (handler called directly). Evidence, not proof.",
)

engine_a("C01",
    engine="C-component",
    scenarios=["C01.trust"],
    technique="deterministic simulation of a node whose clock is stepped across the validity boundaries of generated CAs and leaves and whose trust bundle/blocklist change by real reloads; pool verdicts, real first-handshake acceptance and cached re-checks compared with an independent reference of the trust rule at every step",
    rule="one run = 1-3 test CAs (v1/v2, Curve25519 or P-256, unconstrained or constrained in groups/networks/unsafe networks, long-lived / expiring / not yet valid / short window) and 2-8 leaves inside or outside each constraint and window (violating leaves carry a genuine CA signature, produced through the public signing API with a signer wrapper that hides the constraints), broken and P-256 twin signatures, then 20-44 steps drawn from: clock advance to the next validity boundary (-1 s, 0, +1 s; half of the time exactly on the second) or a little, reload toggling a CA in the bundle / blocklisting a fingerprint or a twin fingerprint / clearing the blocklist, a full comparison over all leaves, a real first handshake message from a leaf; distinct = distinct abstract trace hash; non-trivial = the reference both accepted and rejected during the run",
    level_text="Seeded search over (time, trust state) histories: VerifyCertificate on the node's live pool must equal the reference rule (blocklist incl. twin fingerprint, trusted issuer, same curve, issuer and leaf valid now, signature, leaf inside the issuer's window, groups, networks, unsafe networks) for every leaf at every comparison; a real first handshake message installs a tunnel iff the reference accepts at that instant; VerifyCachedCertificate must give the verdict of a full check for every certificate accepted earlier and every tunnel held. The full cross product of field values is only sampled as per-run configurations; no per-node clock skew. Evidence, not proof.",
    quick=tier(3000, 35),
)

D_REAL = ["nebula.Main / Control.Start / Control.Stop and every goroutine they start (udp reader, tun reader, handshake manager, connection manager, lighthouse update worker, punchy timers) — real, unmodified", "HostMap, HandshakeManager, LightHouse, relayManager, Firewall, PKI and config reload — real", "Go race detector (-race)"]
D_STUB = ["UDP socket (udp.TesterConn, nebula's own channel-backed test double, tag e2e_testing)", "tun device (overlay.TestTun, same)", "network between nodes (the driver: drop, duplicate, jitter, long delay, partition/heal, blocked direct paths)", "wall clock (synctest bubble)", "crypto/rand (cryptotest seeded)"]

check("C34",
    pkg={"C34.live": "e2e", "C34.gosched": "nebula"}, engine="D-live + B-gosched", scenarios=["C34.live", "C34.gosched"], gomaxprocs=4,
    quick=tier(400, 45, shrink_s=20, recheck=0), thorough=tier(40000, 1500, shrink_s=60, recheck=0),
    technique="deterministic-schedule simulation of live nodes under the race detector: 2-4 real nebula instances (real Main, all goroutines) in one synctest bubble, a seeded driver that owns network, clock and every stimulus and fires bursts of concurrent stimuli (deliveries, tun traffic, reloads, control-API calls, closes, rebinds, stops/restarts); oracles = race detector reports attributed per run, stimulus calls that never return, real-time hang watchdog (lock cycles)",
    rule="one run = 2-4 live nodes (static or lighthouse+relay topology with blocked direct paths, v1/v2, both curves) for 3-13 s (thorough: 5-45 s) of simulated time in rounds of [deliver due packets, one goroutine per destination | 0-5 further concurrent stimuli | wait for quiescence | advance clock 0-1.5 s] under drop/dup/jitter/long-delay/partition faults; distinct = distinct (topology, stimulus-kind set, delivery) abstract hash; non-trivial = application packets were delivered end to end, at least two stimuli hit one node in the same burst and at least 4 stimulus kinds occurred",
    level_text="Seeded search over stimulus/fault schedules with real goroutines: any race-detector report whose access stacks include nebula code, any stimulus call (reload, close, API, delivery, stop) that has not returned after 30 s of simulated time, and any run that stops making progress in real time (goroutines waiting for mutexes: lock cycle or lost wake-up) is a violation. The schedule of stimuli, faults and clock steps is replayable from the tape; the order in which the Go runtime runs goroutines inside one burst is not controlled, so a replay re-executes the same schedule (up to 3 attempts) rather than the same instruction interleaving. Evidence, not proof. C34.gosched (engine B, package nebula, deterministic): the roles of each node of a fault-free pair (udp reader, tun reader, handshake timer, connection-manager tick, control call) interleaved at every lock acquisition of the HostMap / HandshakeManager / per-handshake / LightHouse / RemoteList / RelayState / conntrack mutexes; all remaining tasks waiting for locks held by parked tasks is a deadlock (lock-order inversion, double acquisition), reported with the exact interleaving and replayed exactly.",
    level_note="Trusted: the Go race detector (happens-before based: it reports an unsynchronised pair whenever both accesses occur in a run, independent of their observed order), synctest quiescence, the driver. Not explored: more than one reader routine per node (the test socket supports one), the Linux batch/offload paths, ssh/stats/dns listeners.",
    real=D_REAL, stub=D_STUB,
    assumptions=["goroutine order inside a burst is chosen by the Go runtime (GOMAXPROCS=4), not by the tape", "one udp reader per node unless the run switches the test doubles to one reader per routine (half of the runs)"],
)

check("C49",
    pkg={"C49.stop": "e2e", "C49.sched": "nebula", "C49.query": "nebula", "C49.replies": "nebula"}, engine="D-live + C-component", scenarios=["C49.stop", "C49.sched", "C49.query", "C49.replies"], scenario_weight={"C49.sched": 20, "C49.query": 3, "C49.replies": 3}, gomaxprocs=4,
    quick=tier(400, 45, shrink_s=20, recheck=0), thorough=tier(40000, 1500, shrink_s=60, recheck=0),
    technique="deterministic-schedule simulation of live nodes: 2-4 real nebula instances in one synctest bubble driven by a seeded stimulus/fault schedule in which Control.Stop is injected at tape-chosen points (before Start, while handshaking, with live or relayed tunnels, in the same burst as a reload or other control calls, twice concurrently, followed or not by a restart); oracles on Stop/Wait return, device and socket closure, and the goroutines left in the bubble",
    rule="one run = 2-4 live nodes for 3-13 s (thorough: 5-45 s) of simulated time with stop-heavy stimulus mix; every node is stopped by the end; distinct = distinct (topology, stimulus-kind set, delivery) abstract hash; non-trivial = at least one Stop hit a node that held pending or established tunnels",
    level_text="Seeded search over stop points: for every stopped node Control.Stop has returned by the next quiescence, Control.Wait returns within 5 s of simulated time, the tun is closed, the socket swallows writes, State is Stopped; after all nodes are stopped and 90 s passed no goroutine other than the driver remains in the bubble (any goroutine, whoever started it); a Stop that blocks on a lock forever is caught by the real-time watchdog (class hang). Evidence, not proof. C49.sched (component, package nebula): the delayed-work scheduler behind Punchy with queue sizes 1-64, 0-200 items with 0-2 s delays, its worker fast, slow or absent, and its context cancelled at a tape-chosen instant; 10 s later no goroutine of the bubble may remain (a timer that fires after the stop must not wait for a worker that is gone). C49.query (engine A node in the state right after Stop: context cancelled, no lighthouse query worker): with handshakes.query_buffer 1-4 and more pending handshakes than that due for their lighthouse re-query in one timer tick, the tick — which the handshake manager finishes before it notices the cancellation — must return. C49.replies (engine A node with a real tunnel to its lighthouse, handshakes.trigger_buffer 1-4): more authentic HostQueryReply messages than the handshake trigger queue holds, some handled while the manager still drains the queue and the rest after the stop point (nobody drains), each delivered by a reader goroutine of its own; every delivery must return (a reader that waits for the stopped manager outlives Stop).",
    level_note="Trusted: synctest's goroutine accounting (runtime.Stack bubble labels), the driver. Socket closure is observed through the test double (a closed TesterConn discards injected packets). ssh/stats/dns listeners are not configured.",
    real=D_REAL, stub=D_STUB,
    assumptions=["goroutine order inside a burst is chosen by the Go runtime (GOMAXPROCS=4), not by the tape", "routines=1"],
)

NOT_APPLICABLE = {
    "C03": "pure encode/decode round trip over input bytes; no clock, schedule, fault or second party for a simulator to control",
    "C04": "pure function of (certificate to sign, signer); offline CLI; nothing to schedule or fault",
    "C08": "pure codec differential against generated protobuf code; no time, order, fault or party",
    "C20": "pure parser of one packet's bytes",
    "C21": "pure packet construction from one input packet and buffer size",
    "C22": "pure function of configuration text",
    "C23": "pure function of the staged batch: MultiCoalescer/TCPCoalescer/UDPCoalescer are single-threaded, read no clock and meet no fault; 'arrival order' and the two tunnel sessions are part of the input (packets + (epoch, counter) sort keys), so deciding it is input generation against a reference segmenter, not simulation. An end-to-end variant (network reordering feeding the receive path of the whole-overlay simulator through a GSO-capable simulated tun) was planned in DESIGN.md and not built; the simulated tun does not advertise GSO, so the coalescers run in passthrough mode in every check",
    "C24": "pure function of one superpacket",
    "C25": "pure arithmetic over a buffer",
    "C27": "pure slicing/parsing of one received buffer",
    "C38": "pure function of (configuration, address)",
    "C40": "pure function of (gateways, packet tuple)",
    "C41": "pure function of configuration",
    "C43": "pure function of (key, passphrase, bytes)",
    "C45": "pure lexical function of a path",
    "C46": "pure function of topology inputs",
    "C47": "pure codec of a 16-byte header",
    "C48": "pure bit splice of (mask, address)",
}

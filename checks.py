# Single source of truth for what bin/vcheck runs per property and what
# bin/genmanifest writes into MANIFEST.json.  Pure data + tiny helpers.

REAL_COMMON = ["github.com/slackhq/nebula compiled from /repo's working tree (in-package harness via go test -overlay)"]

# package key -> (import path, directory under /repo, build tags, race)
PACKAGES = {
    "nebula":    {"path": "github.com/slackhq/nebula", "dir": "", "tags": "", "race": False},
    "nebula_verif": {"path": "github.com/slackhq/nebula", "dir": "", "tags": "verif", "race": False},
    "handshake": {"path": "github.com/slackhq/nebula/handshake", "dir": "handshake", "tags": "", "race": False},
    "udp":       {"path": "github.com/slackhq/nebula/udp", "dir": "udp", "tags": "", "race": False},
    "e2e":       {"path": "github.com/slackhq/nebula/e2e", "dir": "e2e", "tags": "e2e_testing", "race": True},
}

def tier(runs, budget_s, shrink_s=15, recheck=50, workers=16):
    return {"runs": runs, "budget_s": budget_s, "shrink_s": shrink_s, "recheck": recheck, "workers": workers}

CHECKS = {}

def check(pid, **kw):
    kw.setdefault("level", "exploration")
    kw.setdefault("params", {})
    kw.setdefault("env", {})
    CHECKS[pid] = kw

check("C11",
    pkg="nebula", engine="C-component", scenarios=["C11.link"],
    quick=tier(60000, 25), thorough=tier(400000, 600, shrink_s=60),
    technique="deterministic simulation: seeded lossy/duplicating/reordering link + attacker pre-checks + byzantine counter jumps drive the real replay window in lock-step with a reference model",
    rule="one run = one window size/start region/fault mix drawn from the tape and a packet history of 200-2000 (thorough: up to 20000) counters through the simulated link; distinct = distinct abstract trace hash (configuration + log-bucketed outcome mix); non-trivial = the run produced in-window reordered accepts AND duplicate rejects AND out-of-window rejects",
    level_text="Seeded search over delivery histories (drop, duplicate, jitter, near/beyond-window delay, long hold, burst loss, attacker replays and pre-checks, authenticated counter jumps, start regions at 1 / warm-up edge / word boundaries / nonce ceiling / 2^64) with a lock-step reference model of the statement; every Update and Check result, the highest counter, the window bits and a never-pre-checked twin instance are compared after every delivery. Evidence, not proof.",
    level_note="Trusted: the ~40-line reference model (accepted set + maximum + window rule) and the harness link simulator. The real Bits type is exercised directly (no stub); metrics counters are the real go-metrics registry.",
    real=["nebula.Bits (NewBits/Check/Update)"], stub=["network link (simulated)", "packet authentication (attacker restricted to counters that were really sent)"],
    assumptions=["counters delivered to Update are those of authentic packets; forged counters only reach Check"],
)

check("C33",
    pkg="nebula", engine="C-component", scenarios=["C33.wheel"],
    quick=tier(60000, 25), thorough=tier(300000, 600, shrink_s=60),
    technique="deterministic simulation: seeded irregular simulated clock (sub-tick bursts, long gaps, stalls beyond a revolution) drives the real TimerWheel/LockingTimerWheel against a reference of the statement",
    rule="one run = tick/span pair (production pairs and random ones) and 100-800 (thorough: up to 6300) advance+add steps; distinct = distinct abstract trace hash (configuration + bucketed add/gap mix); non-trivial = run mixed sub-tick advances with gaps longer than a tick multiple / a full revolution and >10 adds",
    level_text="Seeded search over add/advance histories on a simulated clock with an independent reference (earliest = add time + timeout rounded up to tick, capped at span; latest = earliest + 2 ticks): every item exactly once, never early, present at the first advance at or after its latest time, nothing lost after a full span. Evidence, not proof.",
    level_note="Trusted: the reference arithmetic in the harness. Precondition of the statement is honoured: every Add follows an Advance to the same instant. timerCacheMax (50000) is not reached; the item cache is exercised only below that bound.",
    real=["nebula.TimerWheel", "nebula.LockingTimerWheel"], stub=["clock (simulated instants passed to Advance)"],
    assumptions=["single caller (the wheel documents that it is not concurrency safe); LockingTimerWheel is exercised sequentially"],
)

check("C28",
    pkg="nebula", engine="A-netsim", scenarios=["C28.mesh"],
    quick=tier(1500, 35), thorough=tier(60000, 900, shrink_s=120),
    technique="deterministic whole-overlay simulation (real nodes, simulated network/clock/tun, seeded faults and operator) with the hostmap invariant evaluated on every node after every event",
    rule="one run = a 2-4 node overlay (static or lighthouse discovery, multi-address peers, both curves) living 20-60 s (thorough: up to 230 s) of simulated time under drop/dup/reorder/delay/partition/stall/sendto faults, rehandshakes, closes, restarts, restarts with a re-issued certificate sharing only some addresses, direct deletes and promotions (including promotion right after deletion); distinct = distinct abstract trace hash; non-trivial = some address held >= 3 simultaneous tunnels",
    level_text="Seeded search over tunnel add/remove/promote/relay histories produced by real handshakes and teardown paths on real nodes; after every simulator event every node's Hosts/moreHosts/Indexes/RemoteIndexes/Relays are checked against the statement (primary heads its list, <=5 distinct live owners, everything reachable is live, removed tunnels unreachable forever, DeleteHostInfo's reported value equals ground truth computed before the call). Evidence, not proof.",
    level_note="Trusted: the harness wiring that mirrors Main (same constructors and order, no goroutines), the simulated socket/tun, and the invariant checker. Goroutine interleavings inside one node are not explored by this engine (single driver).",
    real=["HostMap, HandshakeManager, handshake.Machine, connectionManager, LightHouse, relayManager, Interface packet paths, Firewall, PKI, config reload (all real, wired like Main)"],
    stub=["UDP socket (simConn)", "tun device (simTun)", "goroutine loop shells (driver calls the loop bodies)", "wall clock (synctest bubble)", "crypto/rand (cryptotest seeded)"],
    assumptions=["single-threaded driver: no intra-node goroutine interleavings"],
)

NOT_APPLICABLE = {
    "C03": "pure encode/decode round trip over input bytes; no clock, schedule, fault or second party for a simulator to control",
    "C04": "pure function of (certificate to sign, signer); offline CLI; nothing to schedule or fault",
    "C08": "pure codec differential against generated protobuf code; no time, order, fault or party",
    "C20": "pure parser of one packet's bytes",
    "C21": "pure packet construction from one input packet and buffer size",
    "C22": "pure function of configuration text",
    "C24": "pure function of one superpacket",
    "C25": "pure arithmetic over a buffer",
    "C27": "pure slicing/parsing of one received buffer",
    "C38": "pure function of (configuration, address)",
    "C40": "pure function of (gateways, packet tuple)",
    "C41": "pure function of configuration",
    "C43": "pure function of (key, passphrase, bytes)",
    "C45": "pure lexical function of a path",
    "C46": "pure function of topology inputs",
    "C47": "pure codec of a 16-byte header",
    "C48": "pure bit splice of (mask, address)",
}

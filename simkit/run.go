package verifsimkit

import (
	"encoding/json"
	"fmt"
	"io"
	"os"
	"runtime"
	"sort"
	"strings"
	"sync/atomic"
	"testing"
	"testing/cryptotest"
	"testing/synctest"
	"time"
)

// Scenario is one family of simulated runs that decides (part of) a property.
type Scenario struct {
	// Run executes one simulated run. It must take every decision from rc.Tape.
	Run func(rc *RunCtx)
	// NoBubble runs the scenario outside a synctest bubble (components that take
	// the time as an argument and never read a clock).
	NoBubble bool
	// LeakIsViolation: a bubble that cannot terminate (goroutines left blocked)
	// is reported as a violation of class "leak" instead of a harness error.
	LeakIsViolation bool
	// PostRun runs after the bubble has ended (outside it); used by oracles that
	// read process-level state such as the race detector's log.
	PostRun func(rc *RunCtx)
	// Isolated: the oracle cannot fire twice in one process (the race detector
	// reports each race once) or ends the process (hang watchdog); the worker
	// then writes the replay file from the first failing run without in-process
	// shrinking, and bin/vcheck shrinks and verifies by fresh-process replays.
	Isolated bool
	// HangTimeout > 0: a real-time no-progress watchdog outside the bubble; when
	// rc.Progress() is not called for a whole period, the process records a
	// violation of class "hang" (with the goroutines that are not durably
	// blocked: waiting for locks or spinning) and exits.
	HangTimeout time.Duration
	// IgnoreLeak: goroutines left blocked when the scenario returns are not this
	// scenario's concern (another check owns that property); the dead bubble is
	// abandoned silently.
	IgnoreLeak bool
}

// liveTape, when set, receives the tape of the next run as it is drawn.
var liveTape io.Writer

// hangHook is installed by WorkerMain; it must not return.
var hangHook func(r *RunResult, dump string)

var registry = map[string]Scenario{}

func Register(name string, s Scenario) { registry[name] = s }

// Violation is what an oracle reports. Class is a short stable identifier of
// the kind of failure (used for shrinking — a shrink step is kept only if the
// same class fires — and for matching known findings); Message is free text.
type Violation struct {
	Class   string `json:"class"`
	Message string `json:"message"`
}

// RunCtx is handed to a scenario for one run.
type RunCtx struct {
	T        *testing.T
	Tape     *Tape
	Seed     uint64
	Tier     string
	Scenario string
	Params   map[string]string

	progress   atomic.Int64
	viol       *Violation
	extra      []Violation
	harnessErr string

	counters   map[string]int64
	events     []string
	nEvents    int
	traceHash  uint64
	byteHash   uint64
	states     map[uint64]struct{}
	nontrivial bool
	simNs      int64
	sample     any
}

var maxEvents = 600

func init() {
	if os.Getenv("VERIF_VERBOSE") != "" {
		maxEvents = 200000
	}
}

// Verbose reports whether wire-level event logging was requested (debugging aid;
// it only adds log lines, it never draws choices).
func Verbose() bool { return maxEvents > 600 }

func newRunCtx(seed uint64, tape *Tape, tier, scen string, params map[string]string) *RunCtx {
	return &RunCtx{Tape: tape, Seed: seed, Tier: tier, Scenario: scen, Params: params,
		counters: map[string]int64{}, traceHash: 1469598103934665603, byteHash: 1469598103934665603,
		states: map[uint64]struct{}{}}
}

// Thorough reports whether the run belongs to the thorough tier.
func (rc *RunCtx) Thorough() bool { return rc.Tier == "thorough" }

// Fail records the first violation of the run. Scenarios should return soon after.
func (rc *RunCtx) Fail(class, format string, a ...any) {
	if rc.viol == nil {
		rc.viol = &Violation{Class: class, Message: fmt.Sprintf(format, a...)}
		rc.Logf("VIOLATION %s: %s", class, rc.viol.Message)
	}
}

// Progress tells the no-progress watchdog (Scenario.HangTimeout) that the run is alive.
func (rc *RunCtx) Progress() { rc.progress.Add(1) }

// FailAlso records a further violation of the same run (oracles that see several
// independent findings at once, e.g. race detector reports); the first one is
// the run's primary violation.
func (rc *RunCtx) FailAlso(class, format string, a ...any) {
	if rc.viol == nil {
		rc.Fail(class, format, a...)
		return
	}
	if rc.viol.Class == class {
		return
	}
	for _, e := range rc.extra {
		if e.Class == class {
			return
		}
	}
	rc.extra = append(rc.extra, Violation{Class: class, Message: fmt.Sprintf(format, a...)})
}

// Failed is true once a violation or harness error was recorded.
func (rc *RunCtx) Failed() bool { return rc.viol != nil || rc.harnessErr != "" }

// HarnessError records that the simulator itself is in trouble (never a violation).
func (rc *RunCtx) HarnessError(format string, a ...any) {
	if rc.harnessErr == "" {
		rc.harnessErr = fmt.Sprintf(format, a...)
	}
}

// Count adds to a named counter (fault kinds fired, reach probes, ...).
func (rc *RunCtx) Count(name string, n int64) { rc.counters[name] += n }

// Logf appends to the human readable event list (bounded; never draws choices).
func (rc *RunCtx) Logf(format string, a ...any) {
	rc.nEvents++
	if len(rc.events) < maxEvents {
		rc.events = append(rc.events, fmt.Sprintf(format, a...))
	}
}

// Trace folds an abstract event into the run's abstract trace hash (the
// distinct-interleavings measure) and logs it.
func (rc *RunCtx) Trace(format string, a ...any) {
	s := fmt.Sprintf(format, a...)
	rc.traceHash = foldString(rc.traceHash, s)
	rc.Logf("%s", s)
}

// TraceQuiet folds into the abstract trace hash without logging.
func (rc *RunCtx) TraceQuiet(s string) { rc.traceHash = foldString(rc.traceHash, s) }

// Bytes folds raw bytes into the byte-level hash (determinism self test).
func (rc *RunCtx) Bytes(b []byte) {
	h := rc.byteHash
	for _, c := range b {
		h ^= uint64(c)
		h *= 1099511628211
	}
	h ^= 0xff
	h *= 1099511628211
	rc.byteHash = h
}

// State records an abstract state hash reached by this run.
func (rc *RunCtx) State(s string) {
	if len(rc.states) < 4096 {
		rc.states[HashString(s)] = struct{}{}
	}
}

// Nontrivial marks the run as having reached the condition the property is about.
func (rc *RunCtx) Nontrivial() { rc.nontrivial = true }

// AddSimTime accounts simulated time covered by the run.
func (rc *RunCtx) AddSimTime(d time.Duration) { rc.simNs += int64(d) }

// Sample attaches a small JSON-able description of the run for the evidence file.
func (rc *RunCtx) Sample(v any) { rc.sample = v }

func foldString(h uint64, s string) uint64 {
	for i := 0; i < len(s); i++ {
		h ^= uint64(s[i])
		h *= 1099511628211
	}
	h ^= 0xfe
	h *= 1099511628211
	return h
}

// RunResult is the outcome of one run.
type RunResult struct {
	Seed       uint64
	Scenario   string
	Tape       []uint32
	Viol       *Violation
	Extra      []Violation
	HarnessErr string
	Counters   map[string]int64
	Events     []string
	NEvents    int
	TraceHash  uint64
	ByteHash   uint64
	States     map[uint64]struct{}
	Nontrivial bool
	SimNs      int64
	Sample     any
}

func classifyPanic(p any, stack string) (harness bool) {
	// Walk the stack below the panic frames: the first non-runtime frame tells
	// whether real nebula code or the harness blew up.
	lines := strings.Split(stack, "\n")
	seenPanic := false
	for i := 0; i+1 < len(lines); i++ {
		fn := lines[i]
		file := strings.TrimSpace(lines[i+1])
		if strings.HasPrefix(fn, "panic(") || strings.Contains(fn, "runtime.gopanic") {
			seenPanic = true
			continue
		}
		if !seenPanic {
			continue
		}
		if strings.HasPrefix(fn, "runtime.") || strings.HasPrefix(file, "runtime/") || !strings.HasPrefix(file, "/") {
			continue
		}
		if strings.Contains(file, "/src/runtime/") || strings.Contains(file, "/src/internal/") {
			continue
		}
		return strings.Contains(file, "zz_verif_") || strings.Contains(file, "verifsimkit") || strings.Contains(file, "/verif/")
	}
	return true
}

// RunOne executes a single run of scenario scen with the given seed; vals==nil
// means record mode (PRNG tape), otherwise replay of the stored tape.
func RunOne(t *testing.T, scen string, seed uint64, vals []uint32, replay bool, tier string, params map[string]string) *RunResult {
	sc, ok := registry[scen]
	if !ok {
		return &RunResult{Seed: seed, Scenario: scen, HarnessErr: "unknown scenario " + scen}
	}
	var tape *Tape
	if replay {
		tape = ReplayTape(vals)
	} else {
		tape = NewTape(seed)
	}
	tape.Live = liveTape
	rc := newRunCtx(seed, tape, tier, scen, params)
	cryptotest.SetGlobalRandom(t, seed)
	if sc.HangTimeout > 0 && hangHook != nil {
		// no-progress watchdog (real time, outside the bubble): the scenario reports progress with rc.Progress();
		// a run is a hang only when a whole period passes without any, so machine load cannot trip it
		stop := make(chan struct{})
		defer close(stop)
		go func() {
			last := rc.progress.Load()
			tk := time.NewTicker(sc.HangTimeout)
			defer tk.Stop()
			for {
				select {
				case <-stop:
					return
				case <-tk.C:
					cur := rc.progress.Load()
					if cur != last {
						last = cur
						continue
					}
					buf := make([]byte, 8<<20)
					buf = buf[:runtime.Stack(buf, true)]
					hangHook(&RunResult{Seed: seed, Scenario: scen, Tape: append([]uint32(nil), tape.Rec...)}, string(buf))
				}
			}
		}()
	}

	body := func(bt *testing.T) {
		rc.T = bt
		defer func() {
			if p := recover(); p != nil {
				buf := make([]byte, 1<<16)
				buf = buf[:runtime.Stack(buf, false)]
				st := string(buf)
				if classifyPanic(p, st) {
					rc.HarnessError("harness panic: %v\n%s", p, st)
				} else {
					rc.Fail("panic", "nebula code panicked: %v\n%s", p, trimStack(st))
				}
			}
		}()
		sc.Run(rc)
	}
	if sc.NoBubble {
		body(t)
	} else {
		// in its own goroutine: when the bubble's T is marked failed (the race detector does that), synctest.Test
		// ends the calling goroutine with FailNow
		bubbleDone := make(chan struct{})
		go func() {
			defer close(bubbleDone)
			defer func() {
				if p := recover(); p != nil {
					msg := fmt.Sprint(p)
					if strings.Contains(msg, "deadlock") && sc.IgnoreLeak {
						rc.Count("probe.bubble_abandoned_with_blocked_goroutines", 1)
					} else if strings.Contains(msg, "deadlock") && sc.LeakIsViolation {
						rc.Fail("leak", "bubble could not terminate: %s", msg)
					} else {
						rc.HarnessError("bubble panic: %s", msg)
					}
				}
			}()
			synctest.Test(t, body)
		}()
		<-bubbleDone
	}
	if sc.PostRun != nil {
		sc.PostRun(rc)
	}
	if tape.Exhausted() {
		rc.HarnessError("tape exhausted (%d choices)", tape.Pos())
	}
	return &RunResult{Seed: seed, Scenario: scen, Tape: tape.Rec, Viol: rc.viol, Extra: rc.extra, HarnessErr: rc.harnessErr,
		Counters: rc.counters, Events: rc.events, NEvents: rc.nEvents, TraceHash: rc.traceHash, ByteHash: rc.byteHash,
		States: rc.states, Nontrivial: rc.nontrivial, SimNs: rc.simNs, Sample: rc.sample}
}

func trimStack(s string) string {
	lines := strings.Split(s, "\n")
	if len(lines) > 40 {
		lines = lines[:40]
	}
	return strings.Join(lines, "\n")
}

// ---------------------------------------------------------------------------
// Shrinking

// Shrink minimises a failing tape: suffix truncation, block deletion, zeroing
// and lowering of single choices; a candidate is kept only when the same
// violation class fires again. Bounded by maxRuns candidate executions and
// a wall-clock budget (read outside any bubble, so it is the real clock; it
// only limits how far minimisation goes).
func Shrink(t *testing.T, scen string, seed uint64, tier string, params map[string]string, first *RunResult, budget time.Duration, maxRuns int) *RunResult {
	best := first
	class := first.Viol.Class
	deadline := time.Now().Add(budget)
	runs := 0
	try := func(vals []uint32) bool {
		if runs >= maxRuns || time.Now().After(deadline) {
			return false
		}
		runs++
		r := RunOne(t, scen, seed, vals, true, tier, params)
		if r.Viol != nil && r.Viol.Class == class && r.HarnessErr == "" {
			// normalise: keep what the run actually consumed, dropping trailing zeros
			r.Tape = trimZeros(r.Tape)
			if tapeLess(r.Tape, best.Tape) || len(r.Tape) <= len(best.Tape) {
				best = r
			}
			return true
		}
		return false
	}
	cur := func() []uint32 { return append([]uint32(nil), best.Tape...) }
	best.Tape = trimZeros(best.Tape)

	// 1. suffix truncation by bisection
	lo, hi := 0, len(best.Tape)
	for lo < hi && runs < maxRuns {
		mid := (lo + hi) / 2
		if try(cur()[:mid]) {
			hi = len(best.Tape)
			if hi > mid {
				hi = mid
			}
		} else {
			lo = mid + 1
		}
	}
	improved := true
	for pass := 0; improved && pass < 6; pass++ {
		improved = false
		// 2. block deletion
		for _, bs := range []int{64, 16, 4, 1} {
			for i := 0; i+bs <= len(best.Tape); {
				c := cur()
				c = append(c[:i], c[i+bs:]...)
				if try(c) {
					improved = true
				} else {
					i += bs
				}
				if runs >= maxRuns || time.Now().After(deadline) {
					return best
				}
			}
		}
		// 3. zero blocks then single values
		for _, bs := range []int{32, 8, 1} {
			for i := 0; i < len(best.Tape); i += bs {
				c := cur()
				changed := false
				for j := i; j < i+bs && j < len(c); j++ {
					if c[j] != 0 {
						c[j] = 0
						changed = true
					}
				}
				if changed && try(c) {
					improved = true
				}
				if runs >= maxRuns || time.Now().After(deadline) {
					return best
				}
			}
		}
		// 4. lower single values
		for i := 0; i < len(best.Tape); i++ {
			for best.Tape[i] > 1 {
				c := cur()
				c[i] = c[i] / 2
				if !try(c) {
					break
				}
				improved = true
				if i >= len(best.Tape) {
					break
				}
			}
			if runs >= maxRuns || time.Now().After(deadline) {
				return best
			}
		}
	}
	return best
}

func trimZeros(v []uint32) []uint32 {
	n := len(v)
	for n > 0 && v[n-1] == 0 {
		n--
	}
	return v[:n]
}

func tapeLess(a, b []uint32) bool {
	if len(a) != len(b) {
		return len(a) < len(b)
	}
	for i := range a {
		if a[i] != b[i] {
			return a[i] < b[i]
		}
	}
	return false
}

// ---------------------------------------------------------------------------
// Worker protocol (driven by bin/vcheck)

type Job struct {
	Property  string            `json:"property"`
	Tier      string            `json:"tier"`
	VerifSeed uint64            `json:"verif_seed"`
	Scenarios []string          `json:"scenarios"`
	First     uint64            `json:"first"`
	Stride    uint64            `json:"stride"`
	Count     uint64            `json:"count"`
	BudgetS   float64           `json:"budget_s"`
	Out       string            `json:"out"`
	ReplayDir string            `json:"replay_dir"`
	Replay    string            `json:"replay"` // replay file to execute instead of a batch
	Params    map[string]string `json:"params"`
	ShrinkS   float64           `json:"shrink_s"`
	Recheck   int               `json:"recheck"` // re-execute every Nth run and compare hashes (determinism)
	DumpTrace string            `json:"dump_trace"`
	LiveTape  string            `json:"live_tape"` // replay: stream the tape to this file while it is drawn
}

type ReplayFile struct {
	Property  string            `json:"property"`
	Scenario  string            `json:"scenario"`
	Tier      string            `json:"tier"`
	RunSeed   uint64            `json:"run_seed"`
	Params    map[string]string `json:"params,omitempty"`
	Class     string            `json:"class"`
	Message   string            `json:"message"`
	Tape      []uint32          `json:"tape"`
	OrigTape  int               `json:"orig_tape_len"`
	TraceHash string            `json:"trace_hash"`
	ByteHash  string            `json:"byte_hash"`
	Events    []string          `json:"events"`
	Isolated  bool              `json:"isolated,omitempty"`
	FromSeed  bool              `json:"from_seed,omitempty"` // no tape stored: re-derive it from run_seed
}

type WorkerViolation struct {
	Class      string `json:"class"`
	Message    string `json:"message"`
	Scenario   string `json:"scenario"`
	RunSeed    uint64 `json:"run_seed"`
	ReplayPath string `json:"replay_path"`
	TapeLen    int    `json:"tape_len"`
	OrigLen    int    `json:"orig_tape_len"`
	Isolated   bool   `json:"isolated,omitempty"`
}

type WorkerOut struct {
	Runs               int               `json:"runs"`
	Nontrivial         int               `json:"nontrivial"`
	WallS              float64           `json:"wall_s"`
	SimNs              int64             `json:"sim_ns"`
	Events             int64             `json:"events"`
	Choices            int64             `json:"choices"`
	Counters           map[string]int64  `json:"counters"`
	TraceHashes        []uint64          `json:"trace_hashes"`
	NTTraceHashes      []uint64          `json:"nontrivial_trace_hashes"`
	StateHashes        []uint64          `json:"state_hashes"`
	Samples            []any             `json:"samples"`
	Violations         []WorkerViolation `json:"violations"`
	HarnessErrors      []string          `json:"harness_errors"`
	Rechecked          int               `json:"rechecked"`
	RecheckDiffs       int               `json:"recheck_diffs"`
	RecheckDiffSamples []string          `json:"recheck_diff_samples,omitempty"`
	PerScenario        map[string]int    `json:"per_scenario"`
	ReplayOutcome      *ReplayOutcome    `json:"replay_outcome,omitempty"`
}

type ReplayOutcome struct {
	Reproduced bool   `json:"reproduced"`
	Class      string `json:"class"`
	Message    string `json:"message"`
	TraceHash  string `json:"trace_hash"`
	ByteHash   string `json:"byte_hash"`
	SameHash   bool   `json:"same_hash"`
}

func writeJSON(path string, v any) error {
	b, err := json.MarshalIndent(v, "", " ")
	if err != nil {
		return err
	}
	tmp := path + ".tmp"
	if err := os.WriteFile(tmp, b, 0o644); err != nil {
		return err
	}
	return os.Rename(tmp, path)
}

// WorkerMain is called from the single Test function of each harness package.
// Without VERIF_JOB it does nothing (so a plain `go test` of the overlaid
// package still passes).
func WorkerMain(t *testing.T) {
	jp := os.Getenv("VERIF_JOB")
	if jp == "" {
		t.Skip("VERIF_JOB not set")
		return
	}
	raw, err := os.ReadFile(jp)
	if err != nil {
		t.Fatalf("job: %v", err)
	}
	var job Job
	if err := json.Unmarshal(raw, &job); err != nil {
		t.Fatalf("job: %v", err)
	}
	out := &WorkerOut{Counters: map[string]int64{}, PerScenario: map[string]int{}}
	start := time.Now()

	if job.Replay != "" {
		doReplay(t, &job, out)
		out.WallS = time.Since(start).Seconds()
		if err := writeJSON(job.Out, out); err != nil {
			t.Fatalf("write: %v", err)
		}
		return
	}

	hangHook = func(r *RunResult, dump string) {
		msg := "run did not finish within the real-time watchdog; goroutines waiting for locks or spinning:\n" + HangSummary(dump)
		rf := ReplayFile{Property: job.Property, Scenario: r.Scenario, Tier: job.Tier, RunSeed: r.Seed, Params: job.Params,
			Class: "hang", Message: msg, Tape: r.Tape, OrigTape: len(r.Tape), Events: r.Events, Isolated: true}
		os.MkdirAll(job.ReplayDir, 0o755)
		path := fmt.Sprintf("%s/%s-%d.json", job.ReplayDir, sanitize(r.Scenario), r.Seed)
		writeJSON(path, rf)
		out.Violations = append(out.Violations, WorkerViolation{Class: "hang", Message: msg, Scenario: r.Scenario, RunSeed: r.Seed,
			ReplayPath: path, TapeLen: len(r.Tape), OrigLen: len(r.Tape), Isolated: true})
		out.WallS = time.Since(start).Seconds()
		writeJSON(job.Out, out)
		os.Exit(0)
	}
	deadline := start.Add(time.Duration(job.BudgetS * float64(time.Second)))
	traces := map[uint64]struct{}{}
	nttraces := map[uint64]struct{}{}
	states := map[uint64]struct{}{}
	seenClass := map[string]int{}
	for i := uint64(0); i < job.Count; i++ {
		if job.BudgetS > 0 && time.Now().After(deadline) {
			break
		}
		idx := job.First + i*job.Stride
		scen := job.Scenarios[int(idx%uint64(len(job.Scenarios)))]
		seed := RunSeed(job.VerifSeed, job.Property+"/"+scen, idx)
		if registry[scen].Isolated {
			// so that the orchestrator can attribute a process death to its run
			writeJSON(job.Out+".current", map[string]any{"scenario": scen, "run_seed": seed, "index": idx})
		}
		r := RunOne(t, scen, seed, nil, false, job.Tier, job.Params)
		out.Runs++
		out.PerScenario[scen]++
		out.SimNs += r.SimNs
		out.Events += int64(r.NEvents)
		out.Choices += int64(len(r.Tape))
		for k, v := range r.Counters {
			out.Counters[k] += v
		}
		traces[r.TraceHash] = struct{}{}
		if r.Nontrivial {
			out.Nontrivial++
			nttraces[r.TraceHash] = struct{}{}
		}
		for s := range r.States {
			if len(states) < 1<<18 {
				states[s] = struct{}{}
			}
		}
		if r.Sample != nil && len(out.Samples) < 3 && (r.Nontrivial || i > 8) {
			out.Samples = append(out.Samples, map[string]any{"scenario": scen, "run_seed": fmt.Sprint(seed), "choices": len(r.Tape), "events": r.NEvents, "case": r.Sample})
		}
		if r.HarnessErr != "" {
			if len(out.HarnessErrors) < 5 {
				out.HarnessErrors = append(out.HarnessErrors, fmt.Sprintf("scenario=%s seed=%d: %s", scen, seed, r.HarnessErr))
			}
			continue
		}
		if job.Recheck > 0 && i%uint64(job.Recheck) == 0 && r.Viol == nil {
			r2 := RunOne(t, scen, seed, nil, false, job.Tier, job.Params)
			out.Rechecked++
			if r2.TraceHash != r.TraceHash || r2.ByteHash != r.ByteHash {
				out.RecheckDiffs++
				if len(out.RecheckDiffSamples) < 3 {
					d := fmt.Sprintf("scenario=%s seed=%d: ", scen, seed)
					for k := 0; k < len(r.Events) || k < len(r2.Events); k++ {
						var a, b string
						if k < len(r.Events) {
							a = r.Events[k]
						}
						if k < len(r2.Events) {
							b = r2.Events[k]
						}
						if a != b {
							lo := k - 6
							if lo < 0 {
								lo = 0
							}
							d += fmt.Sprintf("first difference at event %d:\n  context: %s\n  run1: %s\n  run2: %s", k, strings.Join(r.Events[lo:k], " | "), a, b)
							break
						}
					}
					out.RecheckDiffSamples = append(out.RecheckDiffSamples, d)
				}
			}
		}
		if r.Viol != nil {
			if registry[scen].Isolated {
				orig := len(r.Tape)
				tp := trimZeros(r.Tape)
				for vi, vv := range append([]Violation{*r.Viol}, r.Extra...) {
					_ = vi
					seenClass[vv.Class]++
					if seenClass[vv.Class] > 2 || len(out.Violations) >= 60 {
						continue
					}
					rf := ReplayFile{Property: job.Property, Scenario: scen, Tier: job.Tier, RunSeed: seed, Params: job.Params,
						Class: vv.Class, Message: vv.Message, Tape: tp, OrigTape: orig,
						TraceHash: fmt.Sprintf("%016x", r.TraceHash), ByteHash: fmt.Sprintf("%016x", r.ByteHash), Events: r.Events, Isolated: true}
					os.MkdirAll(job.ReplayDir, 0o755)
					path := fmt.Sprintf("%s/%s-%d-%016x.json", job.ReplayDir, sanitize(scen), seed, HashString(vv.Class))
					if err := writeJSON(path, rf); err != nil {
						out.HarnessErrors = append(out.HarnessErrors, "write replay: "+err.Error())
						continue
					}
					out.Violations = append(out.Violations, WorkerViolation{Class: vv.Class, Message: vv.Message, Scenario: scen,
						RunSeed: seed, ReplayPath: path, TapeLen: len(tp), OrigLen: orig, Isolated: true})
				}
				continue
			}
			seenClass[r.Viol.Class]++
			if seenClass[r.Viol.Class] > 2 || len(out.Violations) >= 6 {
				continue // enough examples of this class from this worker
			}
			orig := len(r.Tape)
			shrinkBudget := time.Duration(job.ShrinkS * float64(time.Second))
			if shrinkBudget <= 0 {
				shrinkBudget = 20 * time.Second
			}
			best := Shrink(t, scen, seed, job.Tier, job.Params, r, shrinkBudget, 4000)
			// final authoritative re-run of the minimised tape
			fin := RunOne(t, scen, seed, best.Tape, true, job.Tier, job.Params)
			if fin.Viol == nil || fin.Viol.Class != r.Viol.Class {
				fin = RunOne(t, scen, seed, r.Tape, true, job.Tier, job.Params)
				if fin.Viol == nil {
					out.HarnessErrors = append(out.HarnessErrors, fmt.Sprintf("scenario=%s seed=%d: violation %q did not reproduce from its own tape", scen, seed, r.Viol.Class))
					continue
				}
			}
			fin.Tape = trimZeros(fin.Tape)
			rf := ReplayFile{Property: job.Property, Scenario: scen, Tier: job.Tier, RunSeed: seed, Params: job.Params,
				Class: fin.Viol.Class, Message: fin.Viol.Message, Tape: fin.Tape, OrigTape: orig,
				TraceHash: fmt.Sprintf("%016x", fin.TraceHash), ByteHash: fmt.Sprintf("%016x", fin.ByteHash), Events: fin.Events}
			os.MkdirAll(job.ReplayDir, 0o755)
			path := fmt.Sprintf("%s/%s-%d.json", job.ReplayDir, sanitize(scen), seed)
			if err := writeJSON(path, rf); err != nil {
				out.HarnessErrors = append(out.HarnessErrors, "write replay: "+err.Error())
				continue
			}
			out.Violations = append(out.Violations, WorkerViolation{Class: fin.Viol.Class, Message: fin.Viol.Message, Scenario: scen,
				RunSeed: seed, ReplayPath: path, TapeLen: len(fin.Tape), OrigLen: orig})
		}
	}
	out.TraceHashes = keys(traces)
	out.NTTraceHashes = keys(nttraces)
	out.StateHashes = keys(states)
	out.WallS = time.Since(start).Seconds()
	if err := writeJSON(job.Out, out); err != nil {
		t.Fatalf("write: %v", err)
	}
}

func doReplay(t *testing.T, job *Job, out *WorkerOut) {
	raw, err := os.ReadFile(job.Replay)
	if err != nil {
		out.HarnessErrors = append(out.HarnessErrors, "replay read: "+err.Error())
		return
	}
	var rf ReplayFile
	if err := json.Unmarshal(raw, &rf); err != nil {
		out.HarnessErrors = append(out.HarnessErrors, "replay parse: "+err.Error())
		return
	}
	hangHook = func(r *RunResult, dump string) {
		out.Runs = 1
		out.ReplayOutcome = &ReplayOutcome{Class: "hang", Message: HangSummary(dump), Reproduced: rf.Class == "hang"}
		writeJSON(job.Out, out)
		os.Exit(0)
	}
	if job.LiveTape != "" {
		if fh, err := os.Create(job.LiveTape); err == nil {
			liveTape = fh
			defer fh.Close()
		}
	}
	r := RunOne(t, rf.Scenario, rf.RunSeed, rf.Tape, !rf.FromSeed, rf.Tier, rf.Params)
	out.Runs = 1
	if r.HarnessErr != "" {
		out.HarnessErrors = append(out.HarnessErrors, r.HarnessErr)
	}
	ro := &ReplayOutcome{TraceHash: fmt.Sprintf("%016x", r.TraceHash), ByteHash: fmt.Sprintf("%016x", r.ByteHash)}
	ro.SameHash = ro.TraceHash == rf.TraceHash && ro.ByteHash == rf.ByteHash
	if r.Viol != nil {
		ro.Class, ro.Message = r.Viol.Class, r.Viol.Message
		ro.Reproduced = r.Viol.Class == rf.Class
		for _, e := range r.Extra {
			if e.Class == rf.Class {
				ro.Class, ro.Message, ro.Reproduced = e.Class, e.Message, true
			}
		}
	}
	out.ReplayOutcome = ro
	if job.DumpTrace != "" {
		os.WriteFile(job.DumpTrace, []byte(strings.Join(r.Events, "\n")+"\n"), 0o644)
	}
	if job.Recheck > 0 {
		// debugging aid: execute the same run again in this process and dump its trace next to the first one
		for k := 0; k < job.Recheck; k++ {
			r2 := RunOne(t, rf.Scenario, rf.RunSeed, rf.Tape, !rf.FromSeed, rf.Tier, rf.Params)
			if r2.TraceHash != r.TraceHash || r2.ByteHash != r.ByteHash {
				out.RecheckDiffs++
				if job.DumpTrace != "" {
					os.WriteFile(fmt.Sprintf("%s.again%d", job.DumpTrace, k), []byte(strings.Join(r2.Events, "\n")+"\n"), 0o644)
				}
			}
			out.Rechecked++
		}
	}
}

func keys(m map[uint64]struct{}) []uint64 {
	o := make([]uint64, 0, len(m))
	for k := range m {
		o = append(o, k)
	}
	sort.Slice(o, func(i, j int) bool { return o[i] < o[j] })
	return o
}

func sanitize(s string) string {
	return strings.Map(func(r rune) rune {
		if r >= 'a' && r <= 'z' || r >= 'A' && r <= 'Z' || r >= '0' && r <= '9' || r == '-' || r == '_' {
			return r
		}
		return '_'
	}, s)
}

// HangSummary extracts from a full goroutine dump the goroutines that are not
// parked durably: those waiting for a mutex/semaphore, runnable or running.
func HangSummary(dump string) string {
	var o []string
	for _, blk := range strings.Split(dump, "\n\n") {
		nl := strings.IndexByte(blk, '\n')
		if nl < 0 {
			continue
		}
		head := blk[:nl]
		if !strings.Contains(head, "synctest bubble") {
			continue
		}
		if strings.Contains(head, "(durable)") || strings.Contains(head, "synctest.Run") {
			continue
		}
		lines := strings.Split(blk, "\n")
		var fr []string
		for i := 1; i < len(lines) && len(fr) < 6; i += 2 {
			fn := lines[i]
			if k := strings.LastIndexByte(fn, '('); k > 0 {
				fn = fn[:k]
			}
			if strings.HasPrefix(fn, "runtime.") || strings.HasPrefix(fn, "internal/") {
				continue
			}
			fr = append(fr, fn)
		}
		o = append(o, head+" "+strings.Join(fr, " < "))
		if len(o) >= 12 {
			break
		}
	}
	return strings.Join(o, "\n")
}

// Package verifsimkit is the deterministic-simulation kernel shared by every
// harness: the choice tape (one integer decides everything), the shrinker,
// per-run statistics, and the worker loop that the orchestrator (bin/vcheck)
// drives through a JSON job file. It is compiled into the nebula module by a
// `go test -overlay`; nothing in /repo imports it outside test binaries.
package verifsimkit

import (
	"io"
	"math/rand/v2"
)

// Tape is the single source of every simulator decision in a run. In record
// mode values come from a PCG seeded from the run seed; in replay mode they come
// from a stored list (missing entries read as 0, the benign choice). Either way
// the values actually returned are recorded in Rec, so Rec is the schedule and
// fault trace of the run.
type Tape struct {
	rng    *rand.Rand
	replay []uint32
	isRep  bool
	pos    int
	Rec    []uint32
	// Max caps the number of choices a run may draw (guards runaway scenarios).
	Max int
	// Live, when set, receives every recorded value at once (4 bytes LE), so the
	// tape of a run that kills its process can be recovered.
	Live io.Writer
}

func NewTape(seed uint64) *Tape {
	return &Tape{rng: rand.New(rand.NewPCG(seed, seed^0x9e3779b97f4a7c15)), Max: 1 << 22}
}

func ReplayTape(vals []uint32) *Tape {
	return &Tape{replay: vals, isRep: true, Max: 1 << 22}
}

// Exhausted reports that the run drew more than Max choices.
func (t *Tape) Exhausted() bool { return t.pos >= t.Max }

// Choose returns a value in [0,n). Exactly one tape slot is consumed whatever
// n is, so deleting or zeroing one choice does not re-interpret the others.
// 0 is always the benign option by convention of the callers.
func (t *Tape) Choose(n int) int {
	var v uint32
	if n <= 1 {
		v = 0
		if !t.isRep && t.rng != nil {
			// keep the PRNG stream position independent of n
			t.rng.Uint32()
		}
	} else if t.isRep {
		if t.pos < len(t.replay) {
			v = t.replay[t.pos]
		}
		if int(v) >= n {
			v = uint32(n - 1)
		}
	} else {
		v = uint32(t.rng.Uint64N(uint64(n)))
	}
	t.pos++
	if t.pos > 2*t.Max {
		panic("verifsimkit: tape runaway (a scenario loops on tape choices)")
	}
	if len(t.Rec) < t.Max {
		t.Rec = append(t.Rec, v)
	}
	if t.Live != nil {
		t.Live.Write([]byte{byte(v), byte(v >> 8), byte(v >> 16), byte(v >> 24)})
	}
	return int(v)
}

// Chance is true with probability num/den; the 0 tape value is always false.
func (t *Tape) Chance(num, den int) bool {
	v := t.Choose(den)
	return v >= 1 && v <= num
}

// Range returns a value in [lo,hi] (inclusive); tape value 0 maps to lo.
func (t *Tape) Range(lo, hi int) int {
	if hi <= lo {
		t.Choose(1)
		return lo
	}
	return lo + t.Choose(hi-lo+1)
}

// Weighted picks an index with the given weights; index 0 is the benign one.
func (t *Tape) Weighted(w ...int) int {
	total := 0
	for _, x := range w {
		total += x
	}
	v := t.Choose(total)
	for i, x := range w {
		if v < x {
			return i
		}
		v -= x
	}
	return 0
}

// U64 draws a 64-bit value (two slots). Tape value 0,0 is 0.
func (t *Tape) U64() uint64 {
	hi := uint64(t.Choose(1 << 30))
	lo := uint64(t.Choose(1 << 30))
	x := t.Choose(16)
	return hi<<34 | lo<<4 | uint64(x)
}

// Bytes fills b from the tape (one slot per byte; shrinkable to zeros).
func (t *Tape) Bytes(b []byte) {
	for i := range b {
		b[i] = byte(t.Choose(256))
	}
}

// Pos is the number of choices drawn so far.
func (t *Tape) Pos() int { return t.pos }

// Splitmix64 is the seed-derivation function (VERIF_SEED, property, run index) -> run seed.
func Splitmix64(x uint64) uint64 {
	x += 0x9e3779b97f4a7c15
	z := x
	z = (z ^ (z >> 30)) * 0xbf58476d1ce4e5b9
	z = (z ^ (z >> 27)) * 0x94d049bb133111eb
	return z ^ (z >> 31)
}

func HashString(s string) uint64 {
	h := uint64(1469598103934665603)
	for i := 0; i < len(s); i++ {
		h ^= uint64(s[i])
		h *= 1099511628211
	}
	return h
}

// RunSeed derives the seed of run idx of a property from VERIF_SEED.
func RunSeed(verifSeed uint64, prop string, idx uint64) uint64 {
	return Splitmix64(Splitmix64(verifSeed^HashString(prop)) + idx*0x9e3779b97f4a7c15)
}

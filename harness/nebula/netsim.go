package nebula

// Engine A — netsim: a single-threaded discrete-event simulation of a whole
// nebula overlay. Every node is the set of objects Main builds (PKI, Firewall,
// HostMap, Punchy, connectionManager, LightHouse, HandshakeManager,
// relayManager, Interface), wired in the same order with the same calls, but
// with a simulated UDP socket and tun device and WITHOUT any goroutine: each
// former goroutine body (listenOut's listener+flusher, listenIn's loop body,
// HandshakeManager.Run's cases, connectionManager.Start's tick, the lighthouse
// query/update workers, the punchy worker) is an event the driver calls. The
// driver is the only goroutine; time is the synctest bubble clock; every choice
// comes from the tape.

import (
	"container/heap"
	"context"
	"encoding/binary"
	"errors"
	"fmt"
	"io"
	"log/slog"
	"net/netip"
	"os"
	"slices"
	"sort"
	"strings"
	"testing/synctest"
	"time"

	"github.com/slackhq/nebula/cert"
	"github.com/slackhq/nebula/config"
	"github.com/slackhq/nebula/firewall"
	"github.com/slackhq/nebula/header"
	sk "github.com/slackhq/nebula/internal/verifsimkit"
	"github.com/slackhq/nebula/overlay/batch"
	"github.com/slackhq/nebula/overlay/tio"
	"github.com/slackhq/nebula/routing"
	"github.com/slackhq/nebula/udp"
	"go.yaml.in/yaml/v3"
)

// ---------------------------------------------------------------------------
// simulated socket and tun

type simDatagram struct {
	from netip.AddrPort
	to   netip.AddrPort
	data []byte
	src  int // emitting node index, -1 for the attacker
	id   uint64
	note string
	// batched: already went through the receive batch queue (batchRx)
	batched bool
}

var errSimWrite = errors.New("simulated sendto failure")

type simConn struct {
	w        *simWorld
	node     *simNode
	addr     netip.AddrPort
	out      []*simDatagram
	failNext int // number of upcoming writes that fail (fault injection)
	closed   bool
}

func (c *simConn) Rebind() error                         { return nil }
func (c *simConn) LocalAddr() (netip.AddrPort, error)    { return c.addr, nil }
func (c *simConn) ListenOut(udp.EncReader, func()) error { panic("simConn.ListenOut is not used by netsim") }
func (c *simConn) ReloadConfig(*config.C)                {}
func (c *simConn) SupportsMultipleReaders() bool         { return c.w.routines > 1 }
func (c *simConn) Close() error                          { c.closed = true; return nil }
func (c *simConn) WriteTo(b []byte, a netip.AddrPort) error {
	if c.failNext > 0 {
		c.failNext--
		c.w.rc.Count("fault.sendto_error", 1)
		return errSimWrite
	}
	c.w.dgSeq++
	c.out = append(c.out, &simDatagram{from: c.addr, to: a, data: append([]byte(nil), b...), src: c.node.idx, id: c.w.dgSeq})
	return nil
}
func (c *simConn) WriteBatch(bufs [][]byte, addrs []netip.AddrPort) (int, error) {
	n := 0
	for i := range bufs {
		if err := c.WriteTo(bufs[i], addrs[i]); err == nil {
			n++
		}
	}
	return n, nil
}

type simTun struct {
	w    *simWorld
	node *simNode
	nets []netip.Prefix
	out  [][]byte
	// failNext: number of upcoming writes that fail (fault injection), after failSkip successful ones
	failNext int
	failSkip int
	// routes maps an unsafe destination prefix to gateways (overlay.Device.RoutesFor)
	routes map[netip.Prefix]routing.Gateways
}

func (t *simTun) Close() error             { return nil }
func (t *simTun) Activate() error          { return nil }
func (t *simTun) Networks() []netip.Prefix { return t.nets }
func (t *simTun) Name() string             { return "simtun" }
func (t *simTun) RoutesFor(a netip.Addr) routing.Gateways {
	var best netip.Prefix
	var g routing.Gateways
	for p, gw := range t.routes {
		if p.Contains(a) && (g == nil || p.Bits() > best.Bits()) {
			best, g = p, gw
		}
	}
	return g
}
func (t *simTun) Queues(n int) ([]tio.Queue, error) {
	// one simulated device behind every queue (the driver decides which reader routine gets a packet)
	q := make([]tio.Queue, max(1, n))
	for i := range q {
		q[i] = t
	}
	return q, nil
}
func (t *simTun) Read() ([]tio.Packet, error)     { return nil, io.EOF }
func (t *simTun) Write(p []byte) (int, error) {
	if t.failNext > 0 && t.failSkip > 0 {
		t.failSkip--
	} else if t.failNext > 0 {
		// fault injection: the device refuses the write (ENOBUFS/EIO); nothing is delivered
		t.failNext--
		t.w.rc.Count("fault.tun_write_error", 1)
		return 0, errSimWrite
	}
	cp := append([]byte(nil), p...)
	t.out = append(t.out, cp)
	return len(p), nil
}

// ---------------------------------------------------------------------------
// node

type nodeSpec struct {
	name       string
	nets       []netip.Prefix // overlay networks (first is primary)
	unsafeNets []netip.Prefix
	groups     []string
	udp        netip.AddrPort
	id         *simIdentity
	static     map[string][]string // static_host_map
	lighthouse bool
	lhHosts    []string
	relay      bool
	relays     []string
	extra      map[string]any // deep-merged over the base config
	altUDP     []netip.AddrPort // further underlay addresses that reach this node
}

type simNode struct {
	w     *simWorld
	idx   int
	spec  *nodeSpec
	f     *Interface
	c     *config.C
	conn  *simConn
	tun   *simTun
	rxc   *rxContext
	rxc2  *rxContext // second reader routine (worlds with routines == 2)
	sb    *batch.SendBatch
	cm    *connectionManager
	alive bool
	gen   int // incarnation, bumped by restart
	// per node scratch for the inside path
	fwPacket *firewall.ParsedPacket
	nb       []byte
	reject   []byte
	cancel   context.CancelFunc
	lhUpdate bool // lighthouse update worker "running"
	stallEnd time.Duration
}

func deepMerge(dst, src map[string]any) {
	for k, v := range src {
		if sm, ok := v.(map[string]any); ok {
			if dm, ok := dst[k].(map[string]any); ok {
				deepMerge(dm, sm)
				continue
			}
			nm := map[string]any{}
			deepMerge(nm, sm)
			dst[k] = nm
			continue
		}
		dst[k] = v
	}
}

func (s *nodeSpec) configMap() map[string]any {
	pk := map[string]any{"ca": s.id.caPEM(), "cert": s.id.certPEM(), "key": string(s.id.keyPEM)}
	mc := map[string]any{
		"pki": pk,
		"firewall": map[string]any{
			"outbound": []any{map[string]any{"proto": "any", "port": "any", "host": "any"}},
			"inbound":  []any{map[string]any{"proto": "any", "port": "any", "host": "any"}},
		},
		"listen":     map[string]any{"host": s.udp.Addr().String(), "port": int(s.udp.Port())},
		"handshakes": map[string]any{"query_buffer": 8192, "trigger_buffer": 1024},
		"lighthouse": map[string]any{"am_lighthouse": s.lighthouse, "interval": 10},
		"relay":      map[string]any{"am_relay": s.relay, "use_relays": true},
		"punchy":     map[string]any{"punch": true, "respond": true},
	}
	if len(s.lhHosts) > 0 {
		mc["lighthouse"].(map[string]any)["hosts"] = toAnySlice(s.lhHosts)
	}
	if len(s.relays) > 0 {
		mc["relay"].(map[string]any)["relays"] = toAnySlice(s.relays)
	}
	if len(s.static) > 0 {
		sm := map[string]any{}
		for k, v := range s.static {
			sm[k] = toAnySlice(v)
		}
		mc["static_host_map"] = sm
	}
	if s.extra != nil {
		deepMerge(mc, s.extra)
	}
	return mc
}

func toAnySlice(s []string) []any {
	o := make([]any, len(s))
	for i := range s {
		o[i] = s[i]
	}
	return o
}

func (s *nodeSpec) configYAML() string {
	b, err := yaml.Marshal(s.configMap())
	if err != nil {
		panic(err)
	}
	return string(b)
}

var simLogger = func() *slog.Logger {
	if os.Getenv("VERIF_NEBULA_LOG") != "" {
		return slog.New(slog.NewTextHandler(os.Stderr, &slog.HandlerOptions{Level: slog.LevelDebug}))
	}
	return slog.New(slog.DiscardHandler)
}()

// newSimNode wires a node exactly like Main does (same constructors, same
// order, same registration of reload callbacks), minus goroutines.
func (w *simWorld) newSimNode(idx int, spec *nodeSpec) (*simNode, error) {
	l := simLogger
	c := config.NewC(l)
	if err := c.LoadString(spec.configYAML()); err != nil {
		return nil, fmt.Errorf("config: %w", err)
	}
	// Worker goroutines are never started: the lighthouse gets a context that is
	// already cancelled so its query worker exits at once; the driver drains the
	// queues itself. The interface gets a live context.
	dead, cancelDead := context.WithCancel(context.Background())
	cancelDead()
	ctx, cancel := context.WithCancel(context.Background())

	pki, err := NewPKIFromConfig(l, c)
	if err != nil {
		cancel()
		return nil, fmt.Errorf("pki: %w", err)
	}
	fw, err := NewFirewallFromConfig(l, pki.getCertState(), c)
	if err != nil {
		cancel()
		return nil, fmt.Errorf("firewall: %w", err)
	}
	n := &simNode{w: w, idx: idx, spec: spec, c: c, alive: true, cancel: cancel}
	conn := &simConn{w: w, node: n, addr: spec.udp}
	tun := &simTun{w: w, node: n, nets: pki.getCertState().myVpnNetworks, routes: map[netip.Prefix]routing.Gateways{}}
	hostMap := NewHostMapFromConfig(l, c)
	punchy := NewPunchyFromConfig(l, c, conn)
	cm := newConnectionManagerFromConfig(l, c, hostMap, punchy)
	lh, err := NewLightHouseFromConfig(dead, l, c, pki.getCertState(), conn, punchy)
	if err != nil {
		cancel()
		return nil, fmt.Errorf("lighthouse: %w", err)
	}
	lh.localAddrsFn = func(*LocalAllowList) []netip.Addr { return n.localAddrs() }
	mm := newMessageMetricsOnlyRecvError()
	hm := NewHandshakeManager(l, hostMap, lh, conn, HandshakeConfig{
		tryInterval:    c.GetDuration("handshakes.try_interval", DefaultHandshakeTryInterval),
		retries:        int64(c.GetInt("handshakes.retries", DefaultHandshakeRetries)),
		triggerBuffer:  c.GetInt("handshakes.trigger_buffer", DefaultHandshakeTriggerBuffer),
		messageMetrics: mm,
	})
	lh.handshakeTrigger = hm.trigger
	var ds *dnsServer
	if w.withDNS {
		// (a context that is not live: a reload that switches serve_dns on calls Start, which then returns before
		// opening a socket; records, queries and reload handling do not depend on the context)
		ds, _ = newDnsServerFromConfig(dead, l, pki, hostMap, c)
	}
	ifc := &InterfaceConfig{
		HostMap: hostMap, Inside: tun, Outside: conn, pki: pki, Firewall: fw, DnsServer: ds,
		HandshakeManager: hm, connectionManager: cm, lightHouse: lh,
		tryPromoteEvery:       c.GetUint32("counters.try_promote", defaultPromoteEvery),
		reQueryEvery:          c.GetUint32("counters.requery_every_packets", defaultReQueryEvery),
		reQueryWait:           c.GetDuration("timers.requery_wait_duration", defaultReQueryWait),
		DropLocalBroadcast:    c.GetBool("tun.drop_local_broadcast", false),
		DropMulticast:         c.GetBool("tun.drop_multicast", false),
		routines:              max(1, w.routines),
		MessageMetrics:        mm,
		version:               "netsim",
		relayManager:          NewRelayManager(ctx, l, hostMap, c),
		punchy:                punchy,
		ConntrackCacheTimeout: c.GetDuration("firewall.conntrack.routine_cache_timeout", 0),
		l:                     l,
	}
	f, err := NewInterface(ctx, ifc)
	if err != nil {
		cancel()
		return nil, fmt.Errorf("interface: %w", err)
	}
	f.writers = []udp.Conn{conn}
	for r := 1; r < w.routines; r++ {
		// Main opens one SO_REUSEPORT socket per routine; here every routine writes to the one simulated socket
		f.writers = append(f.writers, conn)
	}
	lh.ifce = f
	f.RegisterConfigChangeCallbacks(c)
	f.reloadDisconnectInvalid(c)
	f.reloadSendRecvError(c)
	f.reloadAcceptRecvError(c)
	hm.f = f
	// punchy.Start without its worker goroutine (the driver runs the worker body)
	punchy.ctx, punchy.ifce, punchy.hm, punchy.lh = ctx, f, hostMap, lh
	if err := f.activate(); err != nil {
		cancel()
		return nil, fmt.Errorf("activate: %w", err)
	}
	n.f, n.conn, n.tun, n.cm = f, conn, tun, cm
	n.rxc = newRxContext(f, 0)
	if f.routines > 1 {
		n.rxc2 = newRxContext(f, 1)
	}
	n.sb = batch.NewSendBatch(conn, batch.SendBatchCap, batch.SendBatchCap*(udp.MTU+32))
	n.fwPacket = &firewall.ParsedPacket{}
	n.nb = make([]byte, 12)
	n.reject = make([]byte, mtu)
	return n, nil
}

func (n *simNode) localAddrs() []netip.Addr {
	o := []netip.Addr{n.conn.addr.Addr()}
	for _, a := range n.spec.altUDP {
		o = append(o, a.Addr())
	}
	return o
}

func (n *simNode) vpnAddr() netip.Addr { return n.spec.nets[0].Addr() }

// recvBatch2 is recvBatch on the node's second reader routine.
func (n *simNode) recvBatch2(dgs []*simDatagram) {
	for _, d := range dgs {
		buf := append([]byte(nil), d.data...)
		n.f.readOutsidePackets(ViaSender{UdpAddr: d.from}, buf, n.rxc2)
	}
	if err := n.f.batchers[1].Flush(); err != nil {
		n.w.rc.Logf("node %d: flush error %v", n.idx, err)
	}
	clear(n.rxc2.hostmapCache)
}

// recvBatch is exactly listenOut's listener (per datagram) + flusher (once).
func (n *simNode) recvBatch(dgs []*simDatagram) {
	for _, d := range dgs {
		// readOutsidePackets decrypts in place: hand it a private copy, as the
		// receive ring would
		buf := append([]byte(nil), d.data...)
		n.f.readOutsidePackets(ViaSender{UdpAddr: d.from}, buf, n.rxc)
	}
	if err := n.f.batchers[0].Flush(); err != nil {
		n.w.rc.Logf("node %d: flush error %v", n.idx, err)
	}
	clear(n.rxc.hostmapCache)
}

// sendInside is exactly listenIn's loop body for one tun read of one packet.
func (n *simNode) sendInside(pkt []byte) {
	n.f.consumeInsidePacket(tio.Packet{Bytes: append([]byte(nil), pkt...)}, n.fwPacket, n.nb, n.sb, n.reject, 0, nil)
	n.f.flushSendBatch(n.sb, 0)
}

// drainChannels runs the bodies of the worker goroutines for everything queued.
func (n *simNode) drainChannels() bool {
	did := false
	lh := n.f.lightHouse
	hm := n.f.handshakeManager
	p := n.f.lightHouse.punchy
	// NOTE: one non-blocking receive per channel, in a fixed order. A single
	// select over several ready channels picks pseudo-randomly and would break replay.
	for {
		progressed := false
		select {
		case a := <-lh.queryChan:
			lh.innerQueryServer(a, make([]byte, 12), make([]byte, mtu))
			n.w.rc.Count("ev.lh_query", 1)
			progressed = true
		default:
		}
		select {
		case a := <-hm.trigger:
			hm.handleOutbound(a, true)
			n.w.rc.Count("ev.hs_trigger", 1)
			progressed = true
		default:
		}
		select {
		case <-lh.updateTrigger:
			if n.lhUpdate {
				lh.SendUpdate()
				n.w.rc.Count("ev.lh_update_triggered", 1)
			}
			progressed = true
		default:
		}
		// Punch jobs whose AfterFunc timers expired at the same instant were queued by
		// separate timer goroutines in scheduler order: take all that are there and
		// process them in a canonical order so that the run does not depend on it.
		var jobs []holepunchJob
	drainPunch:
		for {
			select {
			case job := <-p.sched.queue:
				jobs = append(jobs, job)
			default:
				break drainPunch
			}
		}
		sort.SliceStable(jobs, func(i, j int) bool {
			if c := jobs[i].vpnAddr.Compare(jobs[j].vpnAddr); c != 0 {
				return c < 0
			}
			return jobs[i].target.Compare(jobs[j].target) < 0
		})
		for _, job := range jobs {
			// body of the worker in Punchy.Start
			switch {
			case job.target.IsValid():
				p.metricHolepunchTx.Inc(1)
				p.punchConn.WriteTo([]byte{0}, job.target)
				n.w.rc.Count("ev.punch", 1)
			case job.vpnAddr.IsValid():
				p.ifce.SendMessageToVpnAddr(header.Test, header.TestRequest, job.vpnAddr, []byte(""), make([]byte, 12), make([]byte, mtu))
				n.w.rc.Count("ev.punch_respond", 1)
			}
			progressed = true
		}
		if !progressed {
			return did
		}
		did = true
	}
}

func (n *simNode) hsTick()  { n.f.handshakeManager.NextOutboundHandshakeTimerTick(time.Now()) }
func (n *simNode) cmTick() {
	now := time.Now()
	n.cm.trafficTimer.Advance(now)
	p := []byte("")
	nb := make([]byte, 12)
	out := make([]byte, mtu)
	for {
		li, has := n.cm.trafficTimer.Purge()
		if !has {
			break
		}
		if n.w.onTrafficCheck != nil {
			n.w.onTrafficCheck(n, li, now, func() { n.cm.doTrafficCheck(li, p, nb, out, now) })
		} else {
			n.cm.doTrafficCheck(li, p, nb, out, now)
		}
	}
}

func (n *simNode) reload(yaml string) error { return n.c.ReloadConfigString(yaml) }

// ---------------------------------------------------------------------------
// world

type simEvent struct {
	at   time.Duration
	seq  uint64
	name string
	run  func()
}
type simEventHeap []*simEvent

func (h simEventHeap) Len() int { return len(h) }
func (h simEventHeap) Less(i, j int) bool {
	if h[i].at != h[j].at {
		return h[i].at < h[j].at
	}
	return h[i].seq < h[j].seq
}
func (h simEventHeap) Swap(i, j int) { h[i], h[j] = h[j], h[i] }
func (h *simEventHeap) Push(x any)   { *h = append(*h, x.(*simEvent)) }
func (h *simEventHeap) Pop() any {
	o := *h
	x := o[len(o)-1]
	*h = o[:len(o)-1]
	return x
}

type netFaults struct {
	drop, dup, reorder, longDelay int // per-mille probabilities
	baseLatency, jitter           time.Duration
	sendErr                       int // per-mille of events that arm a sendto failure
}

type simWorld struct {
	rc     *sk.RunCtx
	tp     *sk.Tape
	t0     time.Time
	now    time.Duration
	q      simEventHeap
	seq    uint64
	dgSeq  uint64
	nodes  []*simNode
	faults netFaults
	quiet  bool // faults off (quiet suffix)
	// partition[i][j] true: datagrams i->j are dropped
	partition map[[2]int]bool
	blocked   map[[2]int]bool // topology: no direct underlay path i->j (applies in the quiet suffix too)
	pending   map[int][]*simDatagram // delivered-at-now datagrams per node awaiting a batch flush
	// batchRx: datagrams reaching a node at the same instant (or within a drawn coalescing window) are handed to
	// it as one receive batch with one flush, as recvmmsg does; a batch of one takes the usual (observed) path
	batchRx bool
	// routines: reader routines per node (0/1: one). With 2 every node has a second receive context (rxc2).
	routines int
	withDNS   bool
	steps     int
	maxSteps  int
	// softBudget: the scenario checks steps against maxSteps itself and stops early
	softBudget bool

	// oracle hooks (nil = unused)
	onWire         func(from *simNode, d *simDatagram) // every datagram a node emits
	beforeDeliver  func(to *simNode, d *simDatagram)
	afterDeliver   func(to *simNode, d *simDatagram)
	onTun          func(n *simNode, pkt []byte) // every packet written to a node's tun
	afterEvent     func(name string)
	onTrafficCheck func(n *simNode, localIndex uint32, now time.Time, run func())
	// attacker tap: sees every datagram put on the wire (after onWire)
	tap func(d *simDatagram)
	// observe, when set, makes every delivery an observed one (state digest before/after)
	observe func(ob *observed, d *simDatagram)
}

func newSimWorld(rc *sk.RunCtx) *simWorld {
	return &simWorld{rc: rc, tp: rc.Tape, t0: time.Now(), partition: map[[2]int]bool{}, blocked: map[[2]int]bool{}, pending: map[int][]*simDatagram{}, maxSteps: 400000}
}

func (w *simWorld) at(d time.Duration, name string, run func()) {
	w.seq++
	if d < w.now {
		d = w.now
	}
	heap.Push(&w.q, &simEvent{at: d, seq: w.seq, name: name, run: run})
}
func (w *simWorld) after(d time.Duration, name string, run func()) { w.at(w.now+d, name, run) }

func (w *simWorld) nodeByUDP(a netip.AddrPort) *simNode {
	for _, n := range w.nodes {
		if n.alive && n.conn.addr == a {
			return n
		}
	}
	for _, n := range w.nodes {
		// additional underlay addresses of a multi-homed node (it answers from its primary one)
		if n.alive && slices.Contains(n.spec.altUDP, a) {
			return n
		}
	}
	return nil
}

func (w *simWorld) addNode(spec *nodeSpec) *simNode {
	n, err := w.newSimNode(len(w.nodes), spec)
	if err != nil {
		w.rc.HarnessError("building node %s: %v", spec.name, err)
		return nil
	}
	w.nodes = append(w.nodes, n)
	w.startTimers(n)
	// whatever the constructors started (goroutines, timers at +0) settles before anybody touches the node: a first
	// action racing with it was the one source of run-to-run divergence found by re-executing every run
	synctest.Wait()
	return n
}

// startTimers schedules the recurring tick events of a node (the tickers of
// HandshakeManager.Run, connectionManager.Start and the lighthouse update worker).
func (w *simWorld) startTimers(n *simNode) {
	gen := n.gen
	hsI := n.f.handshakeManager.config.tryInterval
	cmI := n.cm.trafficTimer.t.tickDuration
	var hs, cmt func()
	hs = func() {
		if !n.alive || n.gen != gen {
			return
		}
		if w.now >= n.stallEnd {
			n.hsTick()
		}
		w.after(hsI, fmt.Sprintf("hs-tick n%d", n.idx), hs)
	}
	cmt = func() {
		if !n.alive || n.gen != gen {
			return
		}
		if w.now >= n.stallEnd {
			n.cmTick()
		}
		w.after(cmI, fmt.Sprintf("cm-tick n%d", n.idx), cmt)
	}
	// phase offsets are a choice so that nodes do not tick in lock step
	w.after(time.Duration(w.tp.Choose(int(hsI/time.Millisecond)+1))*time.Millisecond, fmt.Sprintf("hs-tick n%d", n.idx), hs)
	w.after(time.Duration(w.tp.Choose(int(cmI/time.Millisecond)+1))*time.Millisecond, fmt.Sprintf("cm-tick n%d", n.idx), cmt)
	if !n.f.lightHouse.amLighthouse && n.f.lightHouse.GetUpdateInterval() > 0 && len(n.f.lightHouse.GetLighthouses()) > 0 {
		n.lhUpdate = true
		iv := time.Duration(n.f.lightHouse.GetUpdateInterval()) * time.Second
		var up func()
		up = func() {
			if !n.alive || n.gen != gen {
				return
			}
			if w.now >= n.stallEnd {
				n.f.lightHouse.SendUpdate()
				w.rc.Count("ev.lh_update", 1)
			}
			w.after(iv, fmt.Sprintf("lh-update n%d", n.idx), up)
		}
		// StartUpdateWorker sends one update immediately
		w.after(time.Duration(w.tp.Choose(50))*time.Millisecond, fmt.Sprintf("lh-update n%d", n.idx), up)
	}
}

// restart replaces a node by a fresh instance of the same identity (nebula has
// no durable state besides its configuration).
func (w *simWorld) restart(n *simNode, spec *nodeSpec) *simNode {
	n.alive = false
	n.cancel()
	if spec == nil {
		spec = n.spec
	}
	nn, err := w.newSimNode(n.idx, spec)
	if err != nil {
		if strings.Contains(err.Error(), "expired") {
			// a node whose certificate expired meanwhile cannot start again: it stays down
			w.rc.Count("probe.restart_refused_expired_cert", 1)
			return n
		}
		w.rc.HarnessError("restart node %d: %v", n.idx, err)
		return n
	}
	nn.gen = n.gen + 1
	w.nodes[n.idx] = nn
	delete(w.pending, n.idx)
	w.startTimers(nn)
	w.rc.Count("fault.node_restart", 1)
	synctest.Wait()
	return nn
}

func (w *simWorld) stopAll() {
	for _, n := range w.nodes {
		n.alive = false
		n.cancel()
	}
}

// pump moves everything the nodes produced onto the simulated network and
// drains worker queues until nothing is left to do at the current instant.
func (w *simWorld) pump() {
	for guard := 0; guard < 1000; guard++ {
		progress := false
		for _, n := range w.nodes {
			if !n.alive {
				continue
			}
			if w.now >= n.stallEnd && n.drainChannels() {
				progress = true
			}
			if len(n.tun.out) > 0 {
				out := n.tun.out
				n.tun.out = nil
				for _, p := range out {
					if w.onTun != nil {
						w.onTun(n, p)
					}
				}
				progress = true
			}
			if len(n.conn.out) > 0 {
				out := n.conn.out
				n.conn.out = nil
				for _, d := range out {
					w.transmit(n, d)
				}
				progress = true
			}
		}
		if !progress {
			return
		}
	}
	w.rc.HarnessError("pump did not quiesce")
}

func (w *simWorld) nodeIndexByUDP(a netip.AddrPort) int {
	if n := w.nodeByUDP(a); n != nil {
		return n.idx
	}
	return -1
}

// transmit applies the transport faults to one emitted datagram and schedules
// its delivery (or deliveries).
func (w *simWorld) transmit(from *simNode, d *simDatagram) {
	w.rc.Bytes(d.data)
	if sk.Verbose() {
		var h header.H
		if err := h.Parse(d.data); err == nil {
			w.rc.Logf("t=%v wire n%d %v->%v %s/%d idx=%d ctr=%d len=%d", w.now, d.src, d.from, d.to, h.TypeName(), h.Subtype, h.RemoteIndex, h.MessageCounter, len(d.data))
		} else {
			w.rc.Logf("t=%v wire n%d %v->%v short len=%d", w.now, d.src, d.from, d.to, len(d.data))
		}
	}
	if w.onWire != nil && from != nil {
		w.onWire(from, d)
	}
	if w.tap != nil {
		w.tap(d)
	}
	fl := w.faults
	copies := 1
	if !w.quiet {
		if fl.drop > 0 && w.tp.Chance(fl.drop, 1000) {
			w.rc.Count("fault.drop", 1)
			return
		}
		if fl.dup > 0 && w.tp.Chance(fl.dup, 1000) {
			copies += 1 + w.tp.Choose(2)
			w.rc.Count("fault.duplicate", int64(copies-1))
		}
	}
	for c := 0; c < copies; c++ {
		lat := fl.baseLatency
		if fl.jitter > 0 {
			lat += time.Duration(w.tp.Choose(int(fl.jitter/time.Microsecond)+1)) * time.Microsecond
		}
		if !w.quiet {
			if fl.reorder > 0 && w.tp.Chance(fl.reorder, 1000) {
				lat += time.Duration(1+w.tp.Choose(40)) * time.Millisecond
				w.rc.Count("fault.reorder_delay", 1)
			}
			if fl.longDelay > 0 && w.tp.Chance(fl.longDelay, 1000) {
				lat += time.Duration(1+w.tp.Choose(8000)) * time.Millisecond
				w.rc.Count("fault.long_delay", 1)
			}
		}
		dd := d
		if c > 0 {
			cp := *d
			cp.data = append([]byte(nil), d.data...)
			dd = &cp
		}
		w.after(lat, "deliver", func() { w.deliver(dd) })
	}
}

// inject puts a datagram on the wire on behalf of the attacker (no faults applied to it).
func (w *simWorld) inject(d *simDatagram, delay time.Duration) {
	w.dgSeq++
	d.id = w.dgSeq
	d.src = -1
	w.after(delay, "deliver-injected", func() { w.deliver(d) })
}

func (w *simWorld) deliver(d *simDatagram) {
	to := w.nodeByUDP(d.to)
	if to == nil {
		w.rc.Count("net.unroutable", 1)
		return
	}
	if d.src >= 0 && w.blocked[[2]int{d.src, to.idx}] {
		w.rc.Count("net.no_direct_path", 1)
		return
	}
	if d.src >= 0 && !w.quiet && w.partition[[2]int{d.src, to.idx}] {
		w.rc.Count("fault.partition_drop", 1)
		return
	}
	if w.now < to.stallEnd {
		// a stalled node's socket buffer holds the datagram until it runs again
		w.at(to.stallEnd, "deliver-after-stall", func() { w.deliver(d) })
		return
	}
	if w.batchRx && !d.batched {
		w.pending[to.idx] = append(w.pending[to.idx], d)
		if len(w.pending[to.idx]) == 1 {
			idx := to.idx
			win := time.Duration(w.tp.Choose(4)) * 250 * time.Microsecond
			w.after(win, "recv-batch", func() { w.flushRx(idx) })
		}
		return
	}
	if w.observe != nil {
		// observed delivery: digest the receiver before and after
		if w.beforeDeliver != nil {
			w.pump()
			w.beforeDeliver(to, d)
		}
		if ob := w.deliverObserved(d); ob != nil {
			w.rc.Count("ev.deliver", 1)
			w.observe(ob, d)
		}
		return
	}
	if w.beforeDeliver != nil {
		w.beforeDeliver(to, d)
	}
	to.recvBatch([]*simDatagram{d})
	w.rc.Count("ev.deliver", 1)
	if w.afterDeliver != nil {
		w.afterDeliver(to, d)
	}
}

// flushRx hands a node everything that reached its socket since the batch was opened.
func (w *simWorld) flushRx(idx int) {
	q := w.pending[idx]
	delete(w.pending, idx)
	if len(q) == 0 || idx >= len(w.nodes) {
		return
	}
	to := w.nodes[idx]
	if !to.alive {
		return
	}
	if w.now < to.stallEnd {
		// the node stalled meanwhile: everything stays in its socket buffer
		for _, d := range q {
			w.deliver(d)
		}
		return
	}
	if len(q) == 1 {
		q[0].batched = true
		w.deliver(q[0])
		q[0].batched = false
		return
	}
	w.pump()
	if w.beforeDeliver != nil {
		for _, d := range q {
			w.beforeDeliver(to, d)
		}
	}
	to.recvBatch(q)
	w.rc.Count("ev.deliver", int64(len(q)))
	w.rc.Count("ev.recv_batch", 1)
	if w.afterDeliver != nil {
		for _, d := range q {
			w.afterDeliver(to, d)
		}
	}
}

// step runs one event. It returns false when the horizon or the queue end is reached.
func (w *simWorld) step(horizon time.Duration) bool {
	w.pump()
	if w.rc.Failed() || len(w.q) == 0 {
		return false
	}
	if w.q[0].at > horizon {
		return false
	}
	w.steps++
	if w.steps > w.maxSteps {
		if !w.softBudget {
			// never let the clock silently stop under an oracle that depends on it
			w.rc.HarnessError("event budget of %d simulator events exhausted at t=%v", w.maxSteps, w.now)
		}
		return false
	}
	ev := heap.Pop(&w.q).(*simEvent)
	if ev.at > w.now {
		dt := ev.at - w.now
		time.Sleep(dt)
		synctest.Wait()
		w.rc.AddSimTime(dt)
		w.now = ev.at
	}
	ev.run()
	w.pump()
	if w.afterEvent != nil && !w.rc.Failed() {
		w.afterEvent(ev.name)
	}
	return !w.rc.Failed()
}

func (w *simWorld) runUntil(horizon time.Duration) {
	for w.step(horizon) {
	}
	if !w.rc.Failed() && w.now < horizon && w.steps <= w.maxSteps {
		dt := horizon - w.now
		time.Sleep(dt)
		synctest.Wait()
		w.rc.AddSimTime(dt)
		w.now = horizon
		w.pump()
	}
}

// ---------------------------------------------------------------------------
// packet builders / parsers for the workload

func simUDP4(src, dst netip.Addr, sport, dport uint16, payload []byte) []byte {
	b := make([]byte, 28+len(payload))
	b[0] = 0x45
	binary.BigEndian.PutUint16(b[2:], uint16(len(b)))
	b[6] = 0x40 // DF
	b[8] = 64
	b[9] = 17
	s, d := src.As4(), dst.As4()
	copy(b[12:], s[:])
	copy(b[16:], d[:])
	binary.BigEndian.PutUint16(b[20:], sport)
	binary.BigEndian.PutUint16(b[22:], dport)
	binary.BigEndian.PutUint16(b[24:], uint16(8+len(payload)))
	copy(b[28:], payload)
	// ipv4 header checksum
	var sum uint32
	for i := 0; i < 20; i += 2 {
		sum += uint32(binary.BigEndian.Uint16(b[i:]))
	}
	for sum>>16 != 0 {
		sum = sum&0xffff + sum>>16
	}
	binary.BigEndian.PutUint16(b[10:], ^uint16(sum))
	return b
}

func simUDP6(src, dst netip.Addr, sport, dport uint16, payload []byte) []byte {
	b := make([]byte, 48+len(payload))
	b[0] = 0x60
	binary.BigEndian.PutUint16(b[4:], uint16(8+len(payload)))
	b[6] = 17
	b[7] = 64
	s, d := src.As16(), dst.As16()
	copy(b[8:], s[:])
	copy(b[24:], d[:])
	binary.BigEndian.PutUint16(b[40:], sport)
	binary.BigEndian.PutUint16(b[42:], dport)
	binary.BigEndian.PutUint16(b[44:], uint16(8+len(payload)))
	copy(b[48:], payload)
	return b
}

func simUDP(src, dst netip.Addr, sport, dport uint16, payload []byte) []byte {
	if dst.Is4() && src.Is4() {
		return simUDP4(src, dst, sport, dport, payload)
	}
	return simUDP6(src, dst, sport, dport, payload)
}

// simParseUDP extracts addresses and payload of a UDP packet built by simUDP.
func simParseUDP(b []byte) (src, dst netip.Addr, sport, dport uint16, payload []byte, ok bool) {
	if len(b) < 1 {
		return
	}
	switch b[0] >> 4 {
	case 4:
		ihl := int(b[0]&0xf) * 4
		if len(b) < ihl+8 || b[9] != 17 {
			return
		}
		src, _ = netip.AddrFromSlice(b[12:16])
		dst, _ = netip.AddrFromSlice(b[16:20])
		sport = binary.BigEndian.Uint16(b[ihl:])
		dport = binary.BigEndian.Uint16(b[ihl+2:])
		return src, dst, sport, dport, b[ihl+8:], true
	case 6:
		if len(b) < 48 || b[6] != 17 {
			return
		}
		src, _ = netip.AddrFromSlice(b[8:24])
		dst, _ = netip.AddrFromSlice(b[24:40])
		sport = binary.BigEndian.Uint16(b[40:])
		dport = binary.BigEndian.Uint16(b[42:])
		return src, dst, sport, dport, b[48:], true
	}
	return
}

// markerPayload builds a unique, greppable workload payload.
func markerPayload(id uint64, extra int) []byte {
	p := make([]byte, 16+extra)
	copy(p, "VRFY")
	binary.BigEndian.PutUint64(p[4:], id)
	binary.BigEndian.PutUint32(p[12:], uint32(id*2654435761))
	for i := 16; i < len(p); i++ {
		p[i] = byte(id) + byte(i)
	}
	return p
}

func parseMarker(p []byte) (uint64, bool) {
	if len(p) < 16 || string(p[:4]) != "VRFY" {
		return 0, false
	}
	id := binary.BigEndian.Uint64(p[4:])
	if binary.BigEndian.Uint32(p[12:]) != uint32(id*2654435761) {
		return 0, false
	}
	return id, true
}

// ---------------------------------------------------------------------------
// shared inspection helpers

// sortedHostInfos returns every hostinfo reachable from the main hostmap in a
// deterministic order (by local index).
func sortedHostInfos(hm *HostMap) []*HostInfo {
	hm.RLock()
	defer hm.RUnlock()
	seen := map[*HostInfo]struct{}{}
	var out []*HostInfo
	add := func(h *HostInfo) {
		if h == nil {
			return
		}
		if _, ok := seen[h]; !ok {
			seen[h] = struct{}{}
			out = append(out, h)
		}
	}
	for _, h := range hm.Indexes {
		add(h)
	}
	for _, h := range hm.Hosts {
		add(h)
	}
	for _, l := range hm.moreHosts {
		for _, h := range l {
			add(h)
		}
	}
	for _, h := range hm.RemoteIndexes {
		add(h)
	}
	for _, h := range hm.Relays {
		add(h)
	}
	sort.Slice(out, func(i, j int) bool {
		if out[i].localIndexId != out[j].localIndexId {
			return out[i].localIndexId < out[j].localIndexId
		}
		return fmt.Sprint(out[i].vpnAddrs) < fmt.Sprint(out[j].vpnAddrs)
	})
	return out
}

func sortedAddrs[M ~map[netip.Addr]V, V any](m M) []netip.Addr {
	o := make([]netip.Addr, 0, len(m))
	for k := range m {
		o = append(o, k)
	}
	sort.Slice(o, func(i, j int) bool { return o[i].Compare(o[j]) < 0 })
	return o
}

func sortedU32[M ~map[uint32]V, V any](m M) []uint32 {
	o := make([]uint32, 0, len(m))
	for k := range m {
		o = append(o, k)
	}
	sort.Slice(o, func(i, j int) bool { return o[i] < o[j] })
	return o
}

// abstractState is the per-world abstract state of DESIGN §6.2 (shape only:
// no indexes, counters or bytes).
func (w *simWorld) abstractState() string {
	var sb strings.Builder
	for _, n := range w.nodes {
		if !n.alive {
			sb.WriteString("dead;")
			continue
		}
		hm := n.f.hostMap
		hm.RLock()
		for _, a := range sortedAddrs(hm.Hosts) {
			lst := hm.unlockedGetHostList(a)
			side := "R"
			if lst[0].ConnectionState != nil && lst[0].ConnectionState.initiator {
				side = "I"
			}
			fmt.Fprintf(&sb, "%d:%s=%d%s,", n.idx, a, len(lst), side)
		}
		fmt.Fprintf(&sb, "r%d", len(hm.Relays))
		hm.RUnlock()
		hs := n.f.handshakeManager
		hs.RLock()
		for _, a := range sortedAddrs(hs.vpnIps) {
			fmt.Fprintf(&sb, "p%s#%d,", a, hs.vpnIps[a].counter)
		}
		hs.RUnlock()
		sb.WriteString(";")
	}
	return sb.String()
}

func certVersionName(v cert.Version) string {
	if v == cert.Version1 {
		return "v1"
	}
	return "v2"
}

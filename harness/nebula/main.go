package nebula

import (
	"testing"

	sk "github.com/slackhq/nebula/internal/verifsimkit"
)

// TestVerif is the single entry point of the simulation harness compiled into
// package nebula; bin/vcheck drives it through the VERIF_JOB job file.
func TestVerif(t *testing.T) { sk.WorkerMain(t) }

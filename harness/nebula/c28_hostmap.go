package nebula

// C28 — hostmap indexes stay consistent. Engine A: S-mesh with multi-address
// peers, re-issued certificates that share only some addresses, >5 tunnels per
// address through repeated rehandshakes, closes, recv_errors, restarts and
// relay allocation; the invariant is evaluated on every node after every event.

import (
	"crypto/rand"
	"fmt"
	"net/netip"
	"slices"
	"time"

	"github.com/slackhq/nebula/cert"
	sk "github.com/slackhq/nebula/internal/verifsimkit"
)

func init() {
	sk.Register("C28.mesh", sk.Scenario{Run: runC28})
}

// hostmapOracle tracks every hostinfo ever seen live per node incarnation.
type hostmapOracle struct {
	rc      *sk.RunCtx
	seen    map[*HostMap]map[*HostInfo]bool // true = still live, false = removed
	maxList int
	removed map[*HostMap][]*HostInfo // removed tunnels in the order their removal was noticed (same-event ones by index)
}

func newHostmapOracle(rc *sk.RunCtx) *hostmapOracle {
	return &hostmapOracle{rc: rc, seen: map[*HostMap]map[*HostInfo]bool{}, removed: map[*HostMap][]*HostInfo{}}
}

func (o *hostmapOracle) check(n *simNode, ev string) bool {
	rc := o.rc
	hm := n.f.hostMap
	hm.RLock()
	defer hm.RUnlock()
	seen := o.seen[hm]
	if seen == nil {
		seen = map[*HostInfo]bool{}
		o.seen[hm] = seen
	}
	live := func(h *HostInfo) bool { return h != nil && hm.Indexes[h.localIndexId] == h }

	for _, a := range sortedAddrs(hm.Hosts) {
		list := hm.unlockedGetHostList(a)
		if len(list) == 0 || list[0] != hm.Hosts[a] {
			rc.Fail("primary-not-head", "node %d after %s: Hosts[%v] does not head its list", n.idx, ev, a)
			return false
		}
		if len(list) > MaxHostInfosPerVpnIp {
			rc.Fail("list-too-long", "node %d after %s: address %v has %d tunnels (max %d)", n.idx, ev, a, len(list), MaxHostInfosPerVpnIp)
			return false
		}
		if len(list) > o.maxList {
			o.maxList = len(list)
		}
		for i, h := range list {
			if !live(h) {
				rc.Fail("dead-in-list", "node %d after %s: address %v lists a tunnel (local index %d, position %d) that is not live", n.idx, ev, a, h.localIndexId, i)
				return false
			}
			if !slices.Contains(h.vpnAddrs, a) {
				rc.Fail("not-owner", "node %d after %s: tunnel %d listed under %v but owns %v", n.idx, ev, h.localIndexId, a, h.vpnAddrs)
				return false
			}
			if slices.Index(list, h) != i {
				rc.Fail("duplicate-in-list", "node %d after %s: tunnel %d appears twice under %v", n.idx, ev, h.localIndexId, a)
				return false
			}
		}
	}
	for _, a := range sortedAddrs(hm.moreHosts) {
		l := hm.moreHosts[a]
		if _, ok := hm.Hosts[a]; !ok || len(l) < 1 || l[0] != hm.Hosts[a] {
			rc.Fail("morehosts-orphan", "node %d after %s: moreHosts[%v] without matching primary", n.idx, ev, a)
			return false
		}
	}
	for _, r := range sortedU32(hm.RemoteIndexes) {
		if h := hm.RemoteIndexes[r]; !live(h) {
			rc.Fail("dead-remote-index", "node %d after %s: RemoteIndexes[%d] points to a removed tunnel", n.idx, ev, r)
			return false
		}
	}
	for _, r := range sortedU32(hm.Relays) {
		h := hm.Relays[r]
		if !live(h) {
			rc.Fail("dead-relay-index", "node %d after %s: Relays[%d] points to a removed tunnel", n.idx, ev, r)
			return false
		}
		if _, ok := h.relayState.QueryRelayForByIdx(r); !ok {
			rc.Fail("relay-index-not-owned", "node %d after %s: Relays[%d] points to tunnel %d which does not own that relay index", n.idx, ev, r, h.localIndexId)
			return false
		}
	}
	for _, li := range sortedU32(hm.Indexes) {
		h := hm.Indexes[li]
		if h.localIndexId != li {
			rc.Fail("index-mismatch", "node %d after %s: Indexes[%d] holds tunnel with local index %d", n.idx, ev, li, h.localIndexId)
			return false
		}
		if was, ok := seen[h]; ok && !was {
			rc.Fail("resurrected", "node %d after %s: tunnel %d (%v) was removed earlier and is back in the hostmap", n.idx, ev, li, h.vpnAddrs)
			return false
		}
		seen[h] = true
	}
	// anything seen live before and no longer indexed is removed: it must be unreachable from everywhere
	var gone []*HostInfo
	for h, was := range seen {
		if !was || live(h) {
			continue
		}
		seen[h] = false
		gone = append(gone, h)
	}
	slices.SortFunc(gone, func(a, b *HostInfo) int {
		if a.localIndexId != b.localIndexId {
			return int(int64(a.localIndexId) - int64(b.localIndexId))
		}
		return int(int64(a.remoteIndexId) - int64(b.remoteIndexId))
	})
	o.removed[hm] = append(o.removed[hm], gone...)
	for h, was := range seen {
		if was {
			continue
		}
		for _, a := range h.vpnAddrs {
			if slices.Contains(hm.unlockedGetHostList(a), h) {
				rc.Fail("removed-still-listed", "node %d after %s: removed tunnel %d still listed under %v", n.idx, ev, h.localIndexId, a)
				return false
			}
		}
		for _, l := range hm.moreHosts {
			if slices.Contains(l, h) {
				rc.Fail("removed-still-listed", "node %d after %s: removed tunnel %d still in a tunnel list", n.idx, ev, h.localIndexId)
				return false
			}
		}
		for _, x := range hm.Hosts {
			if x == h {
				rc.Fail("removed-still-primary", "node %d after %s: removed tunnel %d is still a primary", n.idx, ev, h.localIndexId)
				return false
			}
		}
		for _, x := range hm.RemoteIndexes {
			if x == h {
				rc.Fail("removed-remote-index", "node %d after %s: removed tunnel %d still in RemoteIndexes", n.idx, ev, h.localIndexId)
				return false
			}
		}
		for _, x := range hm.Relays {
			if x == h {
				rc.Fail("removed-relay-index", "node %d after %s: removed tunnel %d still owns a relay index", n.idx, ev, h.localIndexId)
				return false
			}
		}
	}
	return true
}

// deleteWithCheck performs what Interface.closeTunnel does, but observes the
// value DeleteHostInfo reports against ground truth computed beforehand.
func (o *hostmapOracle) deleteWithCheck(n *simNode, h *HostInfo) bool {
	hm := n.f.hostMap
	hm.RLock()
	isLive := hm.Indexes[h.localIndexId] == h
	other := false
	for _, a := range h.vpnAddrs {
		for _, x := range hm.unlockedGetHostList(a) {
			if x != h {
				other = true
			}
		}
	}
	hm.RUnlock()
	final := hm.DeleteHostInfo(h)
	_ = isLive // the reported value must be right for a tunnel that was already removed as well (second delete)
	if final == other {
		o.rc.Fail("delete-final-wrong", "node %d: DeleteHostInfo(%d %v) reported final=%v but another tunnel holding one of its addresses exists=%v", n.idx, h.localIndexId, h.vpnAddrs, final, other)
		return false
	}
	if final {
		n.f.lightHouse.DeleteVpnAddrs(h.vpnAddrs)
	}
	return true
}

func runC28(rc *sk.RunCtx) {
	tp := rc.Tape
	horizon := time.Duration(20+tp.Choose(40)) * time.Second
	if rc.Thorough() {
		horizon = time.Duration(30+tp.Choose(200)) * time.Second
	}
	squeezed := tp.Chance(1, 2)
	if squeezed {
		// a small index space (the seam C29 uses): a removed tunnel's local index is soon carried by a newer tunnel,
		// which is when a stale promotion of the removed one must still be refused
		sq := &squeezeReader{inner: rand.Reader, mask: byte(1<<(3+tp.Choose(4)) - 1)}
		saved := rand.Reader
		rand.Reader = sq
		defer func() { rand.Reader = saved }()
		rc.Count("world.squeezed_index_space", 1)
	}
	// relay topologies too: relay indexes (hm.Relays) are part of the statement
	mw := buildMesh(rc, meshOpts{minNodes: 2, maxNodes: 4, allowLighthouse: true, allowRelay: true, multiAddr: true, allowP256: true, horizon: horizon})
	if rc.Failed() {
		return
	}
	defer mw.stopAll()
	or := newHostmapOracle(rc)
	mw.afterEvent = func(name string) {
		for _, n := range mw.nodes {
			if n.alive && !or.check(n, name) {
				return
			}
		}
		if mw.steps%16 == 0 {
			rc.State(mw.abstractState())
		}
	}
	nw := 20 + tp.Choose(60)
	nops := 10 + tp.Choose(40)
	if rc.Thorough() {
		nw, nops = nw*4, nops*4
	}
	mw.scheduleWorkload(nw, 0, horizon)
	mw.scheduleOperator(nops, time.Second, horizon, []string{"rehandshake", "rehandshake", "rehandshake", "close", "close-local", "restart", "stall", "partition", "burst", "senderr"})

	// C28 specific events: direct deletes with return-value check, promotions racing deletes,
	// and restarts with a re-issued certificate that shares only some addresses.
	n := len(mw.nodes)
	extra := 6 + tp.Choose(20)
	for k := 0; k < extra; k++ {
		at := time.Second + time.Duration(tp.Choose(int(horizon/time.Millisecond)))*time.Millisecond
		kind := tp.Choose(6)
		if squeezed && tp.Chance(1, 3) {
			kind = 5
		}
		i := tp.Choose(n)
		pick := tp.Choose(64)
		if kind == 4 {
			// restart storm: the node comes back 6-7 times in quick succession holding only its second address b
			// and dials an observer each time (the observer keeps the older tunnels for b for a while), then once
			// more with a certificate {a, b} in which b is not the first address
			j := (i + 1 + pick%max(1, n-1)) % n
			if j == i {
				continue
			}
			b := overlayAddr(i, 1)
			rounds := 6 + pick%2
			for s := 0; s <= rounds; s++ {
				last := s == rounds
				mw.at(at+time.Duration(s)*time.Duration(150+pick%4*100)*time.Millisecond, fmt.Sprintf("c28-storm n%d>n%d", i, j), func() {
					spec := *mw.specs[i]
					nets := []netip.Prefix{b}
					if last {
						nets = []netip.Prefix{overlayAddr(i, 0), b}
					}
					id := newSimIdentity(mw.ca, []cert.Version{cert.Version2}, spec.name, mw.notBefore, mw.notAfter, nets, nil, nil)
					spec.nets, spec.id = nets, id
					rc.Count("op.restart_storm_step", 1)
					mw.opRestart(i, &spec)
					if mw.nodes[i].alive && mw.nodes[j].alive {
						mw.appSend(i, j, 0)
					}
				})
			}
			continue
		}
		mw.at(at, fmt.Sprintf("c28-op%d n%d", kind, i), func() {
			nd := mw.nodes[i]
			if !nd.alive {
				return
			}
			his := sortedHostInfos(nd.f.hostMap)
			switch kind {
			case 0: // delete any tunnel (primary or not) and check the reported value
				if len(his) > 0 {
					rc.Count("op.direct_delete", 1)
					h := his[pick%len(his)]
					if or.deleteWithCheck(nd, h) && pick%3 == 0 {
						// the same tunnel deleted a second time (two teardown paths racing to the same decision)
						rc.Count("op.double_delete", 1)
						or.deleteWithCheck(nd, h)
					}
				}
			case 1: // promote any live tunnel
				if len(his) > 0 {
					rc.Count("op.make_primary", 1)
					nd.f.hostMap.MakePrimary(his[pick%len(his)])
				}
			case 2: // promotion of a tunnel that was just removed (the race the statement names)
				if len(his) > 0 {
					h := his[pick%len(his)]
					if or.deleteWithCheck(nd, h) {
						rc.Count("op.promote_after_delete", 1)
						nd.f.hostMap.MakePrimary(h)
					}
				}
			case 5: // a stale promotion of a tunnel removed a while ago, preferably one whose local index a newer tunnel carries by now
				gone := or.removed[nd.f.hostMap]
				var reused []*HostInfo
				nd.f.hostMap.RLock()
				for _, h := range gone {
					if cur, ok := nd.f.hostMap.Indexes[h.localIndexId]; ok && cur != h {
						reused = append(reused, h)
					}
				}
				nd.f.hostMap.RUnlock()
				if len(reused) > 0 {
					rc.Count("op.stale_promote_index_reused", 1)
					nd.f.hostMap.MakePrimary(reused[pick%len(reused)])
				} else if len(gone) > 0 {
					rc.Count("op.stale_promote", 1)
					nd.f.hostMap.MakePrimary(gone[pick%len(gone)])
				}
			case 3: // restart with a certificate that keeps the first address and changes the second
				spec := *mw.specs[i]
				nets := []netip.Prefix{spec.nets[0], overlayAddr(i, 2+pick%3)}
				id := newSimIdentity(mw.ca, []cert.Version{cert.Version2}, spec.name, mw.notBefore, mw.notAfter, nets, nil, nil)
				spec.nets, spec.id = nets, id
				rc.Count("op.restart_divergent_cert", 1)
				mw.opRestart(i, &spec)
			}
		})
	}
	mw.runUntil(horizon)
	rc.Count("probe.max_tunnels_per_address", int64(or.maxList))
	if or.maxList >= 3 {
		rc.Nontrivial()
	}
	rc.TraceQuiet(fmt.Sprintf("maxlist=%d steps=%d", or.maxList, bucket(int64(mw.steps))))
	rc.Sample(map[string]any{"nodes": n, "lighthouse": mw.useLH, "horizon": horizon.String(), "events": mw.steps,
		"max_tunnels_per_address": or.maxList, "workload_sent": len(mw.sent), "delivered": len(mw.delivered)})
}

package nebula

// Engine B, node-level scenarios: the goroutines of ONE node (udp reader, tun
// reader, handshake timer, connection manager, control caller) run as real
// goroutines against the node's real state; every lock acquisition of
// HostMap / HandshakeManager / HandshakeHostInfo / LightHouse / RemoteList /
// RelayState / conntrack is a lock point (verifRWMutex / verifMutex, tag verif)
// at which the goroutine parks and the tape picks who runs next. A run:
//
//   phase 0 (single-threaded prelude, engine A parts): a tape-drawn sequence of
//     micro-steps on a fault-free 2-node world (tun sends either way, delivery of
//     one held datagram, clock advance + timer ticks) leaves the pair in some
//     state: nothing / pending handshake with queued packets / reply in flight /
//     crossing handshakes / established / rehandshaking;
//   phase 1 (interleaved): on each node the roles run concurrently — "out"
//     delivers the held datagrams addressed to the node, "in" sends marker
//     packets from the tun, "hs" runs the handshake timer, "cm" the connection
//     manager tick, "ctl" a control call;
//   phase 2 (engine A again): everything still held goes onto the fault-free
//     network and the world runs for 15 s so that handshakes finish.
//
// Oracles per scenario name: C32.gosched — every marker packet reaches the
// destination tun at most once and, when nothing in the run may legitimately
// drop queued packets, exactly once; C28.gosched / C29.gosched — the hostmap and
// index invariants of C28 / C29 hold on both nodes after phase 1 and after phase 2.

import (
	"crypto/rand"
	"fmt"
	"time"

	"testing/synctest"

	"github.com/slackhq/nebula/header"
	sk "github.com/slackhq/nebula/internal/verifsimkit"
)

func init() {
	// HangTimeout: a task that blocks for real (a primitive that is not a lock point, held by a parked task) would
	// otherwise stall the worker until the orchestrator's watchdog; with it the run ends as class "hang" with the
	// blocked goroutines named. (Found once: connectionManager.relayUsedLock, since then a lock-point mutex.)
	const ht = 60 * time.Second
	sk.Register("C32.gosched", sk.Scenario{Run: func(rc *sk.RunCtx) { runGoNode(rc, "C32") }, HangTimeout: ht})
	sk.Register("C28.gosched", sk.Scenario{Run: func(rc *sk.RunCtx) { runGoNode(rc, "C28") }, HangTimeout: ht})
	sk.Register("C29.gosched", sk.Scenario{Run: func(rc *sk.RunCtx) { runGoNode(rc, "C29") }, HangTimeout: ht})
	// C34 (deadlock half): no state oracle, the scheduler's own verdicts decide — every remaining task waiting at
	// a lock point for a lock held by a parked task (lock-order inversion, lock taken twice) is class "deadlock",
	// a panic in nebula code is class "panic"
	sk.Register("C34.gosched", sk.Scenario{Run: func(rc *sk.RunCtx) { runGoNode(rc, "C34") }, HangTimeout: ht})
}

type goNodeWorld struct {
	mw   *meshWorld
	rc   *sk.RunCtx
	held []*simDatagram
	// recvErrors counts recv_error datagrams seen on the wire in any phase
	recvErrors int
	relayWorld bool
}

// reachable: the topology's missing direct paths also hold for hand-delivered datagrams.
func (g *goNodeWorld) reachable(d *simDatagram, to *simNode) bool {
	return d.src < 0 || !g.mw.blocked[[2]int{d.src, to.idx}]
}

// grab collects what the nodes emitted (instead of putting it on the simulated network) and drains worker queues.
func (g *goNodeWorld) grab() {
	w := g.mw.simWorld
	for guard := 0; guard < 200; guard++ {
		progress := false
		for _, n := range w.nodes {
			if n.drainChannels() {
				progress = true
			}
			if len(n.tun.out) > 0 {
				out := n.tun.out
				n.tun.out = nil
				for _, p := range out {
					g.mw.recordTun(n, p)
				}
				progress = true
			}
			if len(n.conn.out) > 0 {
				for _, d := range n.conn.out {
					g.noteWire(d)
				}
				g.held = append(g.held, n.conn.out...)
				n.conn.out = nil
				progress = true
			}
		}
		if !progress {
			return
		}
	}
	g.rc.HarnessError("grab did not quiesce")
}

// noteWire: a recv_error on the wire means some node received traffic for a tunnel it does not hold (reordering
// of data ahead of the handshake reply, or a closed tunnel); its peer will tear the tunnel down, which legitimately
// loses what is in flight or queued behind it.
func (g *goNodeWorld) noteWire(d *simDatagram) {
	var h header.H
	if h.Parse(d.data) == nil && h.Type == header.RecvError {
		g.recvErrors++
	}
}

func (g *goNodeWorld) advance(dt time.Duration) {
	w := g.mw.simWorld
	time.Sleep(dt)
	synctest.Wait()
	g.rc.AddSimTime(dt)
	w.now += dt
}

// takeFor removes from held the datagrams addressed to node i (all of them, or a tape-chosen subset when some is set).
func (g *goNodeWorld) takeFor(i int, some bool) []*simDatagram {
	tp := g.rc.Tape
	var mine, rest []*simDatagram
	for _, d := range g.held {
		if g.mw.nodeIndexByUDP(d.to) == i && !g.reachable(d, g.mw.nodes[i]) {
			continue // no such path: the network drops it
		}
		if g.mw.nodeIndexByUDP(d.to) == i && !(some && tp.Chance(1, 4)) {
			mine = append(mine, d)
		} else {
			rest = append(rest, d)
		}
	}
	g.held = rest
	// tape-chosen order: the network may reorder
	for k := len(mine) - 1; k > 0; k-- {
		j := tp.Choose(k + 1)
		if j != 0 {
			mine[k], mine[k-j] = mine[k-j], mine[k]
		}
	}
	return mine
}

func runGoNode(rc *sk.RunCtx, focus string) {
	tp := rc.Tape
	if focus == "C29" {
		bits := 2 + tp.Choose(5)
		sq := &squeezeReader{inner: rand.Reader, mask: byte(1<<bits - 1), echo: tp.Chance(1, 2)}
		saved := rand.Reader
		rand.Reader = sq
		defer func() { rand.Reader = saved }()
	}
	retries := 40
	mayDrop := false // something in this run may legitimately lose queued packets
	if tp.Chance(1, 4) {
		retries = 2 + tp.Choose(3)
		mayDrop = true
	}
	// a pair with a direct path, or (not for C32, whose exactly-once rule assumes one path) a triple in which node 0 is
	// lighthouse + relay and the two endpoints have no direct path: relay control messages, relay records and relay
	// indexes join the interleaving
	relayWorld := focus != "C32" && tp.Chance(1, 3)
	mo := meshOpts{minNodes: 2, maxNodes: 2, noFaults: true, allowV1: true, allowP256: true}
	if relayWorld {
		mo = meshOpts{minNodes: 3, maxNodes: 3, noFaults: true, allowP256: true, forceRelay: true}
	}
	// two reader routines per node (as with routines: 2): what a node received may be split over two tasks that run
	// readOutsidePackets concurrently, and (except for C32, whose exactly-once rule is stated for a network that does
	// not duplicate) the second reader may get copies of datagrams the first one is handling — retransmitted control
	// messages and handshake packets meeting themselves
	twoReaders := tp.Chance(1, 2)
	if twoReaders {
		mo.routines = 2
	}
	e0, e1 := 0, 1 // the two endpoints that talk to each other
	if relayWorld {
		e0, e1 = 1, 2
	}
	other := func(i int) int {
		if i == e0 {
			return e1
		}
		return e0
	}
	mo.extra = func(i int, spec *nodeSpec) {
		{
			if spec.extra == nil {
				spec.extra = map[string]any{}
			}
			// short liveness intervals: the connection manager's traffic checks are due within the prelude's clock steps
			deepMerge(spec.extra, map[string]any{"handshakes": map[string]any{"try_interval": "200ms", "retries": retries},
				"timers": map[string]any{"connection_alive_interval": 1, "pending_deletion_interval": 1}})
		}
	}
	mw := buildMesh(rc, mo)
	if rc.Failed() {
		return
	}
	synctest.Wait() // whatever the constructors started has settled before the first step
	defer mw.stopAll()
	g := &goNodeWorld{mw: mw, rc: rc}
	hmOr, idxOr := newHostmapOracle(rc), newIndexOracle(rc)
	settling := false
	checkInv := func(ev string) bool {
		for _, n := range mw.nodes {
			if focus == "C28" && !hmOr.check(n, ev) {
				return false
			}
			if focus == "C29" {
				// The index oracle's release rules compare with the state after the PREVIOUS check. Between two checks
				// of the prelude / an interleaved round many things happen (an entry is shadowed by a newer tunnel and
				// then removed together with that tunnel), so only the state rules are applied there: a fresh oracle per
				// check has no previous state. The settle phase checks after every event and uses the full rules.
				o := idxOr
				if !settling {
					o = newIndexOracle(rc)
				}
				if !o.check(n, ev) {
					return false
				}
			}
		}
		return !rc.Failed()
	}
	send := func(src int) {
		mw.appSend(src, other(src), 0)
	}
	g.relayWorld = relayWorld

	// phase 0: prelude (longer in the relay world: lighthouse query, relay request and response come first)
	maxSteps := 9
	if relayWorld {
		maxSteps = 24
	}
	for s, ns := 0, tp.Choose(maxSteps); s < ns; s++ {
		switch tp.Weighted(3, 2, 4, 2) {
		case 0:
			send(e0)
		case 1:
			send(e1)
		case 2:
			if len(g.held) > 0 {
				k := tp.Choose(len(g.held))
				d := g.held[k]
				g.held = append(g.held[:k:k], g.held[k+1:]...)
				if to := mw.nodeByUDP(d.to); to != nil && g.reachable(d, to) {
					to.recvBatch([]*simDatagram{d})
				}
			}
		case 3:
			g.advance(time.Duration(50+tp.Choose(900)) * time.Millisecond)
			n := mw.nodes[tp.Choose(len(mw.nodes))]
			n.hsTick()
			if tp.Chance(1, 2) {
				n.cmTick()
			}
		}
		g.grab()
		if rc.Failed() {
			return
		}
		if sk.Verbose() {
			var hs []string
			for _, d := range g.held {
				var h header.H
				h.Parse(d.data)
				hs = append(hs, fmt.Sprintf("n%d>%v %s/%d idx=%d ctr=%d", d.src, d.to, h.Type, h.Subtype, h.RemoteIndex, h.MessageCounter))
			}
			rc.Logf("prelude step %d: pendingA=%d estA=%d pendingB=%d estB=%d held=%v", s, len(mw.nodes[0].f.handshakeManager.vpnIps), len(mw.nodes[0].f.hostMap.Indexes),
				len(mw.nodes[1].f.handshakeManager.vpnIps), len(mw.nodes[1].f.hostMap.Indexes), hs)
		}
	}
	if !checkInv("prelude") {
		return
	}
	rc.Trace("prelude pendingA=%d estA=%d pendingB=%d estB=%d held=%d", len(mw.nodes[0].f.handshakeManager.vpnIps), len(mw.nodes[0].f.hostMap.Indexes),
		len(mw.nodes[1].f.handshakeManager.vpnIps), len(mw.nodes[1].f.hostMap.Indexes), bucket(int64(len(g.held))))
	pendingAtStart := len(mw.nodes[0].f.handshakeManager.vpnIps)+len(mw.nodes[1].f.handshakeManager.vpnIps) > 0

	// phase 1: the roles of each node, interleaved at lock points; several rounds, each delivering what the previous
	// one produced, so that multi-hop exchanges (handshake + reply, relay request / forward / response) happen under
	// interleaving hop by hop
	nRounds := 1 + tp.Choose(3)
	if relayWorld {
		nRounds = 2 + tp.Choose(5)
	}
	totalSteps, roles := 0, 0
	var s *gosched
	for round := 0; round < nRounds; round++ {
	g.advance([]time.Duration{0, 100, 200, 400, 1100, 2100}[tp.Choose(6)] * time.Millisecond) // some timers become due
	s = newGosched(rc)
	for i, n := range mw.nodes {
		i, n := i, n
		if tp.Chance(7, 8) {
			dgs := g.takeFor(i, tp.Chance(1, 3))
			if len(dgs) > 0 {
				roles++
				split := len(dgs)
				if len(dgs) > 1 && tp.Chance(1, 2) {
					split = 1 + tp.Choose(len(dgs)-1)
				}
				second := dgs[split:]
				concurrent := twoReaders && tp.Chance(2, 3)
				if concurrent && focus != "C32" && tp.Chance(1, 2) {
					// the network duplicates: the second reader gets a copy of something the first one has
					c := *dgs[tp.Choose(split)]
					c.data = append([]byte(nil), c.data...)
					second = append([]*simDatagram{&c}, second...)
					rc.Count("fault.duplicate_to_second_reader", 1)
				}
				if concurrent && len(second) > 0 {
					roles++
					rc.Count("probe.second_reader_tasks", 1)
					s.spawn(fmt.Sprintf("n%d.out", i), func() { n.recvBatch(dgs[:split]) })
					s.spawn(fmt.Sprintf("n%d.out2", i), func() { n.recvBatch2(second) })
				} else {
					s.spawn(fmt.Sprintf("n%d.out", i), func() {
						n.recvBatch(dgs[:split])
						if split < len(dgs) {
							n.recvBatch(dgs[split:])
						}
					})
				}
			}
		}
		isEndpoint := i == e0 || i == e1
		if isEndpoint && tp.Chance(3, 4) {
			cnt := 1 + tp.Choose(4)
			var pkts [][]byte
			for c := 0; c < cnt; c++ {
				// registered as sent now; injected by the task
				mw.nextID++
				id := mw.nextID
				sa, da := n.vpnAddr(), mw.nodes[other(i)].vpnAddr()
				pkt := simUDP(sa, da, 1000+uint16(i), 2000+uint16(other(i)), markerPayload(id, tp.Choose(64)))
				mw.sent[id] = &sentPkt{id: id, src: i, dst: other(i), srcAddr: sa, dstAddr: da, at: mw.now, pkt: pkt}
				rc.Count("workload.sent", 1)
				pkts = append(pkts, pkt)
			}
			roles++
			s.spawn(fmt.Sprintf("n%d.in", i), func() {
				for _, p := range pkts {
					n.sendInside(p)
				}
			})
		}
		if tp.Chance(1, 2) {
			roles++
			// the handshake manager goroutine: timer ticks and the trigger channel (a new handshake's first packet is
			// built here, allocateIndex included); it comes back a few times so that triggers posted by the tun
			// reader during this phase are served during this phase
			s.spawn(fmt.Sprintf("n%d.hs", i), func() {
				hm := n.f.handshakeManager
				for round := 0; round < 3; round++ {
					for k := 0; k < 8; k++ {
						select {
						case a := <-hm.trigger:
							hm.handleOutbound(a, true)
							continue
						default:
						}
						break
					}
					if round == 0 {
						n.hsTick()
					}
					verifYield("hs:idle")
				}
			})
		}
		if tp.Chance(1, 2) {
			roles++
			s.spawn(fmt.Sprintf("n%d.cm", i), func() { n.cmTick() })
		}
		ctlOdds := 4
		if focus == "C29" {
			ctlOdds = 2 // new handshakes (index allocations) while others arrive
		}
		if tp.Chance(1, ctlOdds) {
			roles++
			peer := mw.nodes[(i+1)%len(mw.nodes)].vpnAddr()
			if isEndpoint && tp.Chance(2, 3) {
				peer = mw.nodes[other(i)].vpnAddr()
			}
			ctl := mw.control[i]
			ck := tp.Choose(4)
			if focus == "C29" && tp.Chance(1, 2) {
				ck = 2
			}
			switch ck {
			case 0:
				mayDrop = true
				lo := tp.Chance(1, 2)
				s.spawn(fmt.Sprintf("n%d.ctl-close", i), func() { ctl.CloseTunnel(peer, lo) })
			case 1:
				// single-host snapshots (ListHostmapHosts/Indexes walk Go maps: their order of lock acquisitions would
				// make the schedule unreplayable as soon as a node holds two tunnels)
				s.spawn(fmt.Sprintf("n%d.ctl-list", i), func() {
					ctl.GetHostInfoByVpnAddr(peer, false)
					ctl.GetHostInfoByVpnAddr(peer, true)
					ctl.PrintTunnel(peer)
				})
			case 2:
				s.spawn(fmt.Sprintf("n%d.ctl-create", i), func() { ctl.CreateTunnel(peer) })
			case 3:
				mayDrop = true
				// every tunnel, closed one by one in a canonical order (Control.CloseAllTunnels itself walks a Go map,
				// whose order would make the schedule unreplayable)
				s.spawn(fmt.Sprintf("n%d.ctl-closeall", i), func() {
					for _, h := range sortedHostInfos(n.f.hostMap) {
						ctl.CloseTunnel(h.vpnAddrs[0], false)
					}
				})
			}
		}
	}
	ok := s.run()
	rc.Logf("interleaving round %d (%d steps): %v", round, s.steps, head2(s.trace, 60))
	totalSteps += s.steps
	if !ok {
		return
	}
	g.grab()
	if !checkInv(fmt.Sprintf("interleaved round %d", round)) {
		return
	}
	}

	// phase 2: release everything onto the fault-free network and let the pair settle
	w := mw.simWorld
	for _, d := range g.held {
		if d.src >= 0 && d.src < len(w.nodes) {
			w.transmit(w.nodes[d.src], d)
		}
	}
	g.held = nil
	horizon := w.now + 15*time.Second
	settling = true
	mw.onWire = func(from *simNode, d *simDatagram) { g.noteWire(d) }
	if focus != "C32" {
		mw.afterEvent = func(name string) { checkInv(name) }
	}
	mw.runUntil(horizon)
	if rc.Failed() {
		return
	}
	if !checkInv("settled") {
		return
	}
	if focus == "C32" {
		lost, dup := 0, 0
		for id := uint64(1); id <= mw.nextID; id++ {
			sp := mw.sent[id]
			if sp == nil {
				continue
			}
			switch n := mw.delivered[id]; {
			case n > 1:
				dup++
				rc.Fail("delivered-twice", "marker packet %d (n%d -> n%d) reached the destination tun %d times", id, sp.src, sp.dst, n)
				return
			case n == 0:
				if len(mw.nodes[sp.src].f.handshakeManager.vpnIps) > 0 {
					// the sender still has a pending handshake: the packet may legitimately still be queued
					rc.Count("probe.markers_still_queued_at_end", 1)
					mw.sent[id] = nil
					continue
				}
				lost++
			}
		}
		rc.Count("probe.markers_lost", int64(lost))
		if g.recvErrors > 0 {
			mayDrop = true
			rc.Count("probe.runs_with_recv_error", 1)
		}
		if lost > 0 && !mayDrop {
			var ids []uint64
			for id := uint64(1); id <= mw.nextID; id++ {
				if mw.sent[id] != nil && mw.delivered[id] == 0 {
					ids = append(ids, id)
				}
			}
			rc.Fail("queued-packet-lost", "fault-free pair, no close and no handshake timeout in this run, yet %d of %d marker packets never reached the destination tun: %v", lost, len(mw.sent), head(ids))
			return
		}
	}
	rc.Count("probe.roles", int64(roles))
	rc.Count("probe.scheduler_steps", int64(totalSteps))
	rc.Count("probe.interleaved_rounds", int64(nRounds))
	if relayWorld {
		rc.Count("probe.relay_triple_runs", 1)
	}
	if pendingAtStart {
		rc.Count("probe.interleaved_phase_started_with_pending_handshake", 1)
	}
	if mayDrop {
		rc.Count("probe.runs_where_loss_is_legitimate", 1)
	}
	if roles >= 3 && totalSteps > roles+4 {
		rc.Nontrivial()
	}
	rc.Sample(map[string]any{"roles": roles, "rounds": nRounds, "relay_triple": relayWorld, "scheduler_steps": totalSteps, "pending_at_start": pendingAtStart,
		"loss_legitimate": mayDrop, "markers": len(mw.sent), "last_round_interleaving_head": head2(s.trace, 30)})
}

package nebula

// C49.query — what a node's handshake-manager goroutine does when Stop lands in
// the middle of one of its timer ticks. Stop cancels the node's context; the
// lighthouse query worker returns at its next select, the handshake manager's
// Run loop only after the tick it is in. The rest of that tick is therefore
// work done "after the stop": it must not wait for a worker that is gone.
//
// Engine A node (the lighthouse's context is not live, i.e. exactly the state
// after Stop: no query worker), handshakes.query_buffer 1-4, 2-8 pending
// handshakes to peers the node knows no address for, driven tick by tick (the
// driver playing the query worker) until all of them are one attempt short of
// the re-query the manager issues at its fifth attempt; then one more tick,
// run in its own goroutine with nobody draining the query queue. The tick has
// to return.

import (
	"fmt"
	"net/netip"
	"time"

	"testing/synctest"

	sk "github.com/slackhq/nebula/internal/verifsimkit"
)

func init() {
	sk.Register("C49.query", sk.Scenario{Run: runC49Query, IgnoreLeak: true})
}

func runC49Query(rc *sk.RunCtx) {
	tp := rc.Tape
	qb := 1 + tp.Choose(4)
	tryI := []time.Duration{50 * time.Millisecond, 100 * time.Millisecond, 200 * time.Millisecond}[tp.Choose(3)]
	mo := meshOpts{minNodes: 2, maxNodes: 2, noFaults: true, allowLighthouse: true, forceLH: true}
	mo.extra = func(i int, spec *nodeSpec) {
		if spec.extra == nil {
			spec.extra = map[string]any{}
		}
		deepMerge(spec.extra, map[string]any{"handshakes": map[string]any{"try_interval": tryI.String(), "retries": 12, "query_buffer": qb}})
	}
	mw := buildMesh(rc, mo)
	if rc.Failed() {
		return
	}
	defer mw.stopAll()
	A := mw.nodes[1]
	hm := A.f.handshakeManager
	k := qb + 1 + tp.Choose(6) // more pending handshakes than the query queue has room for
	var peers []netip.Addr
	for i := 0; i < k; i++ {
		p := netip.AddrFrom4([4]byte{10, 128, 0, byte(60 + i)})
		peers = append(peers, p)
		hm.StartHandshake(p, nil)
		A.drainChannels() // the driver is the query worker while the node is "running"
	}
	A.conn.out = nil
	counters := func() (lo, hi int64) {
		lo, hi = 1<<40, -1
		hm.RLock()
		defer hm.RUnlock()
		for _, p := range peers {
			if hh := hm.vpnIps[p]; hh != nil {
				lo, hi = min(lo, hh.counter), max(hi, hh.counter)
			}
		}
		return
	}
	step := func() {
		time.Sleep(tryI)
		synctest.Wait()
		mw.now += tryI
		rc.AddSimTime(tryI)
	}
	// attempts 1..4, with the worker draining (the timer wheel fires an entry up to one tick late: step and look)
	for i := 0; i < 60; i++ {
		if lo, _ := counters(); lo >= 4 {
			break
		}
		step()
		A.hsTick()
		A.drainChannels()
		A.conn.out = nil
	}
	lo, hi := counters()
	ready := 0
	if lo == 4 && hi == 4 {
		ready = k
	}
	rc.Count("probe.handshakes_one_short_of_requery", int64(ready))
	if ready <= qb {
		return // (attempt counters did not line up: nothing to observe in this run)
	}
	// the fifth attempt of all of them falls into one tick, and nobody drains the query queue any more: Stop has
	// cancelled the context, the query worker is gone
	stuck := false
	for i := 0; i < 12 && !stuck; i++ {
		if lo, _ := counters(); lo >= 5 {
			break
		}
		step()
		returned := make(chan struct{})
		go func() {
			A.hsTick()
			close(returned)
		}()
		synctest.Wait()
		select {
		case <-returned:
		default:
			stuck = true
		}
	}
	if !stuck {
		rc.Count("probe.tick_after_stop_returned", 1)
		rc.Nontrivial()
	} else {
		rc.Fail("tick-waits-for-stopped-worker", "query_buffer=%d, %d pending handshakes due for their lighthouse re-query in one timer tick after the node's context was cancelled: the tick never returns (blocked goroutines: %s) — the handshake manager goroutine outlives Stop", qb, ready, blockedIn("QueryServer"))
		// let the stuck goroutine go so that the bubble can end
		for i := 0; i < 64; i++ {
			A.drainChannels()
			synctest.Wait()
		}
	}
	rc.TraceQuiet(fmt.Sprintf("qb=%d k=%d", qb, bucket(int64(ready))))
	rc.Sample(map[string]any{"query_buffer": qb, "pending_handshakes": k, "due_for_requery": ready, "try_interval": tryI.String()})
}

// blockedIn names the goroutines of this bubble whose stack mentions fn.
func blockedIn(fn string) string {
	n := 0
	first := ""
	for _, g := range bubbleGoroutinesExceptCaller() {
		if containsStr(g, fn) {
			n++
			if first == "" {
				first = firstLines(g, 4)
			}
		}
	}
	return fmt.Sprintf("%d, first: %s", n, first)
}

func containsStr(s, sub string) bool {
	for i := 0; i+len(sub) <= len(s); i++ {
		if s[i:i+len(sub)] == sub {
			return true
		}
	}
	return false
}

func firstLines(s string, n int) string {
	out := ""
	for i, c := 0, 0; i < len(s); i++ {
		if s[i] == '\n' {
			c++
			if c >= n {
				break
			}
			out += " | "
			continue
		}
		out += string(s[i])
	}
	return out
}

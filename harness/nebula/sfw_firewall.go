package nebula

// Scenario family "S-fw" (engine C inside engine A's world): one real node V
// holding real tunnels (real HostInfo, CachedCertificate, CAPool) to 2-4 peers
// with generated names, groups, CAs, addresses and unsafe networks. V's real
// firewall is driven packet by packet on the simulated clock, with real config
// reloads in between, against a reference model written from the statement:
// rule semantics (C16), address authenticity (C17), per-tuple tracking with
// idle expiry (C18) and revalidation after reloads (C19). A byzantine peer
// also sends crafted inner packets through its real tunnel, and V's own
// outbound packets are decrypted by the harness at the peer (C17).

import (
	"context"
	"fmt"
	"net/netip"
	"slices"
	"strings"
	"time"

	"github.com/slackhq/nebula/cert"
	"github.com/slackhq/nebula/firewall"
	"github.com/slackhq/nebula/header"
	sk "github.com/slackhq/nebula/internal/verifsimkit"
	"github.com/slackhq/nebula/routing"
)

func init() {
	for _, p := range []string{"C16", "C17", "C18", "C19"} {
		p := p
		sk.Register(p+".fw", sk.Scenario{Run: func(rc *sk.RunCtx) { runSFW(rc, p) }})
	}
}

type fwRule struct {
	Proto, Port                    string
	Host                           string
	Groups                         []string
	Cidr, LocalCidr, CAName, CASha string
}

func (r fwRule) toMap() map[string]any {
	m := map[string]any{"proto": r.Proto, "port": r.Port}
	if r.Host != "" {
		m["host"] = r.Host
	}
	if len(r.Groups) == 1 {
		m["group"] = r.Groups[0]
	} else if len(r.Groups) > 1 {
		m["groups"] = toAnySlice(r.Groups)
	}
	if r.Cidr != "" {
		m["cidr"] = r.Cidr
	}
	if r.LocalCidr != "" {
		m["local_cidr"] = r.LocalCidr
	}
	if r.CAName != "" {
		m["ca_name"] = r.CAName
	}
	if r.CASha != "" {
		m["ca_sha"] = r.CASha
	}
	return m
}

func (r fwRule) String() string {
	return fmt.Sprintf("{%s %s host=%q groups=%v cidr=%q local=%q ca=%q sha=%.8s}", r.Proto, r.Port, r.Host, r.Groups, r.Cidr, r.LocalCidr, r.CAName, r.CASha)
}

type fwPeer struct {
	node      *simNode
	name      string
	groups    []string
	caName    string
	caFP      string
	addrs     []netip.Addr   // certified addresses
	unsafe    []netip.Prefix // certified unsafe networks
	hostinfo  func() *HostInfo
	byzantine bool
}

// sfwRef is the reference model: rule sets, V's identity facts, tracked flows.
type sfwRef struct {
	in, out     []fwRule
	vAddrs      []netip.Addr
	vNets       []netip.Prefix
	vUnsafe     []netip.Prefix
	localAny    bool // default_local_cidr_any
	tcpT, udpT  time.Duration
	defT        time.Duration
	flows       map[firewall.Packet]*refFlow
	version     uint16
	cacheWindow time.Duration
}

type refFlow struct {
	incoming     bool
	lastPass     time.Time
	to           time.Duration // idle timeout in force when lastPass was set
	rulesChanged bool          // a reload with different rules happened since the last pass
}

// refresh: a packet of the flow passed at now. Normally the deadline becomes now+to. With the routine cache on, a
// pass that the cache may have answered (cacheMay) does not touch the tracked flow, so its deadline may still be the
// one set at the last pass that did: after a reload that SHORTENED the idle timeouts that older deadline can be the
// later one, and the model keeps the later of the two (thorough-sweep style false alarm, corrected: the flow of the
// C18 alarm had all its packets at one instant, a timeout reload from 10m to 4s in their middle, the packets after
// the reload answered by the cache; the real entry kept the 10m deadline).
func (f *refFlow) refresh(now time.Time, to time.Duration, cacheMay bool) {
	if old := f.lastPass.Add(f.to); cacheMay && old.After(now.Add(to)) {
		f.lastPass, f.to = now, old.Sub(now)
		return
	}
	f.lastPass, f.to = now, to
}

func (m *sfwRef) timeout(p uint8) time.Duration {
	switch p {
	case firewall.ProtoTCP:
		return m.tcpT
	case firewall.ProtoUDP:
		return m.udpT
	}
	return m.defT
}

// addrOK is the statement of C17.
func (m *sfwRef) addrOK(fp firewall.Packet, p *fwPeer) bool {
	remoteOK := false
	for _, a := range p.addrs {
		if a == fp.RemoteAddr {
			for _, n := range m.vNets {
				if n.Contains(a) {
					remoteOK = true
				}
			}
		}
	}
	for _, u := range p.unsafe {
		if u.Contains(fp.RemoteAddr) {
			// a certified address outside V's networks stays unusable even when an unsafe network covers it? The
			// statement lists the two cases as alternatives; the unsafe network case is enough.
			remoteOK = true
		}
	}
	localOK := slices.Contains(m.vAddrs, fp.LocalAddr)
	for _, u := range m.vUnsafe {
		if u.Contains(fp.LocalAddr) {
			localOK = true
		}
	}
	return remoteOK && localOK
}

// ruleAllows is the statement of C16 for one rule.
func (m *sfwRef) ruleAllows(r fwRule, fp firewall.Packet, incoming bool, p *fwPeer) bool {
	icmp := fp.Protocol == firewall.ProtoICMP || fp.Protocol == firewall.ProtoICMPv6
	switch r.Proto {
	case "any":
	case "tcp":
		if fp.Protocol != firewall.ProtoTCP {
			return false
		}
	case "udp":
		if fp.Protocol != firewall.ProtoUDP {
			return false
		}
	case "icmp":
		if !icmp {
			return false
		}
	}
	if icmp {
		// ICMP ignores ports: an icmp rule always applies, an any-proto rule only with port any
		if r.Proto != "icmp" && r.Port != "any" {
			return false
		}
	} else {
		port := int(fp.RemotePort)
		if incoming {
			port = int(fp.LocalPort)
		}
		switch {
		case r.Port == "any":
		case r.Port == "fragment":
			if !fp.Fragment {
				return false
			}
		default:
			if fp.Fragment {
				return false
			}
			lo, hi := 0, 0
			if i := strings.IndexByte(r.Port, '-'); i >= 0 {
				fmt.Sscanf(r.Port[:i], "%d", &lo)
				fmt.Sscanf(r.Port[i+1:], "%d", &hi)
			} else {
				fmt.Sscanf(r.Port, "%d", &lo)
				hi = lo
			}
			if port < lo || port > hi {
				return false
			}
		}
	}
	if r.CAName != "" || r.CASha != "" {
		if !(r.CASha != "" && r.CASha == p.caFP) && !(r.CAName != "" && r.CAName == p.caName) {
			return false
		}
	}
	switch r.LocalCidr {
	case "any":
	case "":
		if len(m.vUnsafe) > 0 && !m.localAny {
			ok := false
			for _, n := range m.vNets {
				if n.Contains(fp.LocalAddr) {
					ok = true
				}
			}
			if !ok {
				return false
			}
		}
	default:
		if !netip.MustParsePrefix(r.LocalCidr).Contains(fp.LocalAddr) {
			return false
		}
	}
	if len(r.Groups) == 0 && r.Host == "" && r.Cidr == "" {
		return true
	}
	if slices.Contains(r.Groups, "any") || r.Host == "any" || r.Cidr == "any" {
		return true
	}
	if len(r.Groups) > 0 {
		all := true
		for _, g := range r.Groups {
			if !slices.Contains(p.groups, g) {
				all = false
			}
		}
		if all {
			return true
		}
	}
	if r.Host != "" && r.Host == p.name {
		return true
	}
	if r.Cidr != "" && netip.MustParsePrefix(r.Cidr).Contains(fp.RemoteAddr) {
		return true
	}
	return false
}

func (m *sfwRef) allowed(fp firewall.Packet, incoming bool, p *fwPeer) bool {
	rules := m.out
	if incoming {
		rules = m.in
	}
	for _, r := range rules {
		if m.ruleAllows(r, fp, incoming, p) {
			return true
		}
	}
	return false
}

type sfwWorld struct {
	*simWorld
	focus   string
	// fullRange: this run's rule sets may hold "every port by range" rules (65535 table entries each: kept to a
	// minority of runs so that the others stay fast)
	fullRange bool
	// forgotten: flows the model dropped because a reload made their original direction disallowed and a packet met them
	forgotten map[firewall.Packet]bool
	// versionOnly: the next reload installs a new firewall object although nothing that decides a packet changed
	versionOnly bool
	V       *simNode
	peers   []*fwPeer
	ref     *sfwRef
	cas     []*simCA
	vSpec   *nodeSpec
	baseCfg map[string]any
	cache   firewall.ConntrackCache
	ticker  *firewall.ConntrackCacheTicker
	// forceChanged: the next applyRules changes the firewall's meaning although the rule lists are the same
	forceChanged bool
	// everUnsafe: the node's certificate listed an unsafe network at some point of the run
	everUnsafe bool
	stats   map[string]int
	pktSeq  uint64
	lastPass map[firewall.Packet]time.Time // last time the tuple passed, whatever the reason (routine cache slack)
	seenIn  map[uint64]bool // inbound probes that reached V's tun
	seenOut map[uint64]bool // outbound probes that left V encrypted for a peer
}

func (w *sfwWorld) fail(prop, class, format string, a ...any) {
	if prop != w.focus {
		w.rc.Count("probe.other_property_oracle_fired."+prop, 1)
		return
	}
	w.rc.Fail(class, format, a...)
}

func rulesToAny(rs []fwRule) []any {
	o := make([]any, len(rs))
	for i, r := range rs {
		o[i] = r.toMap()
	}
	return o
}

func (w *sfwWorld) genRule(incoming bool) fwRule {
	tp := w.tp
	r := fwRule{}
	r.Proto = []string{"any", "tcp", "udp", "icmp"}[tp.Choose(4)]
	switch tp.Choose(5) {
	case 0:
		r.Port = "any"
	case 1:
		r.Port = "fragment"
	case 2:
		r.Port = fmt.Sprint([]int{53, 80, 443, 1000, 1005, 8080}[tp.Choose(6)])
	default:
		lo := []int{50, 80, 1000, 1003}[tp.Choose(4)]
		r.Port = fmt.Sprintf("%d-%d", lo, lo+tp.Choose(12))
		if w.fullRange && tp.Chance(1, 4) {
			// every port by range: still a port rule (no fragments, nothing without ports), unlike "any"
			r.Port = []string{"1-65535", "1-65534", "2-65535"}[tp.Choose(3)]
		}
	}
	if r.Proto == "icmp" {
		r.Port = "any"
	}
	// selectors
	n := 0
	for try := 0; n == 0; try++ {
		if try >= 3 {
			// (an all-zero tape would never pick a selector)
			r.Host = "any"
			break
		}
		if tp.Chance(1, 3) {
			p := w.peers[tp.Choose(len(w.peers))]
			r.Host = []string{p.name, p.name, "any", "nobody"}[tp.Choose(4)]
			n++
		}
		if tp.Chance(1, 3) {
			gs := []string{"g1", "g2", "g3", "any"}
			r.Groups = []string{gs[tp.Choose(4)]}
			if tp.Chance(1, 3) {
				g2 := gs[tp.Choose(3)]
				if g2 != r.Groups[0] {
					r.Groups = append(r.Groups, g2)
				}
			}
			n++
		}
		if tp.Chance(1, 3) {
			p := w.peers[tp.Choose(len(w.peers))]
			switch tp.Choose(5) {
			case 0:
				r.Cidr = netip.PrefixFrom(p.addrs[0], p.addrs[0].BitLen()).String()
			case 1:
				r.Cidr = "10.128.0.0/24"
			case 2:
				if len(p.unsafe) > 0 {
					r.Cidr = p.unsafe[0].String()
				} else {
					r.Cidr = "10.128.0.0/25"
				}
			case 3:
				r.Cidr = "any"
			case 4:
				r.Cidr = "0.0.0.0/0"
			}
			n++
		}
		if tp.Chance(1, 4) {
			c := w.cas[tp.Choose(len(w.cas))]
			if tp.Chance(1, 2) {
				r.CAName = c.crt.Name()
			} else {
				r.CASha = c.fp
			}
			n++
		}
		if tp.Chance(1, 4) {
			switch tp.Choose(4) {
			case 0:
				r.LocalCidr = "any"
			case 1:
				r.LocalCidr = netip.PrefixFrom(w.ref.vAddrs[0], 32).String()
			case 2:
				if len(w.ref.vUnsafe) > 0 {
					r.LocalCidr = w.ref.vUnsafe[0].String()
				} else {
					r.LocalCidr = "10.128.0.0/24"
				}
			case 3:
				r.LocalCidr = "10.99.0.0/16"
			}
			n++
		}
	}
	return r
}

// sibling derives a rule that lands in the same proto/port/CA bucket as prev and shares one of its
// selectors, differing in local_cidr or in the width of the remote cidr: rule tables in which several
// entries hang off the same host / group / nested prefixes.
func (w *sfwWorld) sibling(prev fwRule) fwRule {
	tp := w.tp
	r := prev
	r.Groups = append([]string(nil), prev.Groups...)
	locals := []string{"", "any", netip.PrefixFrom(w.ref.vAddrs[0], 32).String(), "10.128.0.0/24", "10.99.0.0/16"}
	if len(w.ref.vUnsafe) > 0 {
		locals = append(locals, w.ref.vUnsafe[0].String())
	}
	switch tp.Choose(3) {
	case 0: // same selectors, other local_cidr
		r.LocalCidr = locals[tp.Choose(len(locals))]
	case 1: // nested remote cidr, other local_cidr
		p := w.peers[tp.Choose(len(w.peers))]
		nest := []string{netip.PrefixFrom(p.addrs[0], p.addrs[0].BitLen()).String(), "10.128.0.0/25", "10.128.0.0/24", "10.128.0.0/16", "0.0.0.0/0"}
		r.Cidr = nest[tp.Choose(len(nest))]
		r.LocalCidr = locals[tp.Choose(len(locals))]
	case 2: // same bucket, other selector kind
		p := w.peers[tp.Choose(len(w.peers))]
		r.Host, r.Cidr, r.Groups = "", "", nil
		switch tp.Choose(3) {
		case 0:
			r.Host = p.name
		case 1:
			r.Groups = []string{[]string{"g1", "g2", "g3"}[tp.Choose(3)]}
		case 2:
			r.Cidr = netip.PrefixFrom(p.addrs[0], p.addrs[0].BitLen()).String()
		}
		r.LocalCidr = locals[tp.Choose(len(locals))]
	}
	if r.Host == "" && len(r.Groups) == 0 && r.Cidr == "" && r.LocalCidr == "" && r.CAName == "" && r.CASha == "" {
		r.Host = "any" // a rule needs at least one selector
	}
	return r
}

func (w *sfwWorld) genRules() ([]fwRule, []fwRule) {
	var in, out []fwRule
	for i, n := 0, w.tp.Choose(6); i < n; i++ {
		if len(in) > 0 && w.tp.Chance(1, 3) {
			in = append(in, w.sibling(in[w.tp.Choose(len(in))]))
			continue
		}
		in = append(in, w.genRule(true))
	}
	for i, n := 0, w.tp.Choose(6); i < n; i++ {
		if len(out) > 0 && w.tp.Chance(1, 3) {
			out = append(out, w.sibling(out[w.tp.Choose(len(out))]))
			continue
		}
		out = append(out, w.genRule(false))
	}
	return in, out
}

func (w *sfwWorld) applyRules(in, out []fwRule, initial bool) {
	cfg := map[string]any{}
	deepMerge(cfg, w.baseCfg)
	deepMerge(cfg, map[string]any{"firewall": map[string]any{"inbound": rulesToAny(in), "outbound": rulesToAny(out)}})
	w.vSpec.extra = cfg
	if initial {
		return
	}
	// changed: what decides a packet changed (rule lists, default_local_cidr_any, the node's unsafe networks).
	// versionOnly: the firewall section changed in a way that leaves the rules alone (idle timeouts): a new firewall
	// object with the next rules version is installed and every tracked flow is judged again, but this is "a reload
	// that changes nothing about the rules" and must not cut any flow.
	changed := w.forceChanged || fmt.Sprint(in, out) != fmt.Sprint(w.ref.in, w.ref.out)
	moved := changed || w.versionOnly
	w.forceChanged, w.versionOnly = false, false
	if err := w.V.reload(w.vSpec.configYAML()); err != nil {
		w.rc.HarnessError("reload: %v", err)
		return
	}
	w.rc.Logf("%v reload: rules changed=%v new version=%v; timeouts tcp=%v udp=%v default=%v; real firewall now tcp=%v udp=%v default=%v version=%d", w.now, changed, moved, w.ref.tcpT, w.ref.udpT, w.ref.defT,
		w.V.f.firewall.TCPTimeout, w.V.f.firewall.UDPTimeout, w.V.f.firewall.DefaultTimeout, w.V.f.firewall.rulesVersion)
	w.rc.Count("op.reload_firewall", 1)
	if !moved {
		w.rc.Count("op.reload_identical", 1)
		return
	}
	w.ref.in, w.ref.out = in, out
	w.ref.version++
	if w.ref.version == 0 {
		// the version counter wrapped: every flow needs a rule again
		w.ref.flows = map[firewall.Packet]*refFlow{}
		w.rc.Count("probe.rules_version_wrapped", 1)
	}
	if !changed {
		w.rc.Count("op.reload_rules_untouched_new_version", 1)
		return
	}
	for _, f := range w.ref.flows {
		f.rulesChanged = true
	}
}

func runSFW(rc *sk.RunCtx, focus string) {
	tp := rc.Tape
	sw := newSimWorld(rc)
	w := &sfwWorld{simWorld: sw, focus: focus, stats: map[string]int{}, lastPass: map[firewall.Packet]time.Time{}, seenIn: map[uint64]bool{}, seenOut: map[uint64]bool{}, forgotten: map[firewall.Packet]bool{}}
	w.fullRange = tp.Chance(1, 16)
	defer sw.stopAll()
	sw.faults.baseLatency = time.Millisecond
	sw.maxSteps = 3_000_000 // long idle gaps cost many (cheap) timer-tick events
	sw.softBudget = true
	now := time.Now()
	nb, na := now.Add(-time.Hour), now.Add(10000*time.Hour)
	w.cas = []*simCA{
		newSimCA(cert.Version2, cert.Curve_CURVE25519, "ca-one", now.Add(-2*time.Hour), now.Add(20000*time.Hour), nil, nil, nil),
		newSimCA(cert.Version2, cert.Curve_CURVE25519, "ca-two", now.Add(-2*time.Hour), now.Add(20000*time.Hour), nil, nil, nil),
	}
	ref := &sfwRef{flows: map[firewall.Packet]*refFlow{}}
	w.ref = ref
	// V
	vNets := []netip.Prefix{netip.MustParsePrefix("10.128.0.1/24")}
	if tp.Chance(1, 3) {
		vNets = append(vNets, netip.MustParsePrefix("10.129.0.1/24"))
	}
	var vUnsafe []netip.Prefix
	if tp.Chance(1, 2) {
		vUnsafe = []netip.Prefix{netip.MustParsePrefix("192.168.50.0/24")}
	}
	ref.vNets, ref.vUnsafe = vNets, vUnsafe
	w.everUnsafe = len(vUnsafe) > 0
	for _, n := range vNets {
		ref.vAddrs = append(ref.vAddrs, n.Addr())
	}
	ref.localAny = tp.Chance(1, 3)
	small := tp.Chance(2, 3)
	if small {
		ref.tcpT = time.Duration(2+tp.Choose(20)) * time.Second
		ref.udpT = time.Duration(1+tp.Choose(10)) * time.Second
		ref.defT = time.Duration(1+tp.Choose(15)) * time.Second
	} else {
		ref.tcpT, ref.udpT, ref.defT = 12*time.Minute, 3*time.Minute, 10*time.Minute
	}
	vid := newSimIdentity(w.cas[0], []cert.Version{cert.Version2}, "victim", nb, na, vNets, vUnsafe, []string{"g1"})
	vid.trust = w.cas
	w.vSpec = &nodeSpec{name: "victim", nets: vNets, unsafeNets: vUnsafe, udp: underlayAddr(0, 0), id: vid, static: map[string][]string{}}
	// peers
	np := 2 + tp.Choose(3)
	type pspec struct {
		spec *nodeSpec
		p    *fwPeer
	}
	var pspecs []pspec
	for i := 1; i <= np; i++ {
		ca := w.cas[tp.Choose(2)]
		nets := []netip.Prefix{netip.PrefixFrom(netip.AddrFrom4([4]byte{10, 128, 0, byte(i + 1)}), 24)}
		switch tp.Choose(4) {
		case 1:
			if len(vNets) > 1 {
				nets = append(nets, netip.PrefixFrom(netip.AddrFrom4([4]byte{10, 129, 0, byte(i + 1)}), 24))
			}
		case 2: // an address outside V's networks
			nets = append(nets, netip.PrefixFrom(netip.AddrFrom4([4]byte{10, 77, 0, byte(i + 1)}), 24))
		case 3:
			if tp.Chance(1, 2) {
				// no address inside V's networks at all (a relay- or lighthouse-only peer of another network):
				// nothing it sends carries an address V may accept
				nets = []netip.Prefix{netip.PrefixFrom(netip.AddrFrom4([4]byte{10, 77, 0, byte(i + 1)}), 24)}
			}
		}
		var unsafe []netip.Prefix
		if tp.Chance(1, 3) {
			unsafe = []netip.Prefix{netip.PrefixFrom(netip.AddrFrom4([4]byte{172, 16, byte(i), 0}), 24)}
		}
		var groups []string
		for _, g := range []string{"g1", "g2", "g3"} {
			if tp.Chance(1, 2) {
				groups = append(groups, g)
			}
		}
		name := fmt.Sprintf("peer%d", i)
		id := newSimIdentity(ca, []cert.Version{cert.Version2}, name, nb, na, nets, unsafe, groups)
		id.trust = w.cas
		spec := &nodeSpec{name: name, nets: nets, unsafeNets: unsafe, udp: underlayAddr(i, 0), id: id,
			static: map[string][]string{"10.128.0.1": {underlayAddr(0, 0).String()}}}
		w.vSpec.static[nets[0].Addr().String()] = []string{underlayAddr(i, 0).String()}
		p := &fwPeer{name: name, groups: groups, caName: ca.crt.Name(), caFP: ca.fp, unsafe: unsafe}
		for _, n := range nets {
			p.addrs = append(p.addrs, n.Addr())
		}
		pspecs = append(pspecs, pspec{spec, p})
	}
	for _, ps := range pspecs {
		w.peers = append(w.peers, ps.p)
	}
	cacheOn := tp.Chance(1, 3)
	w.baseCfg = map[string]any{"firewall": map[string]any{
		"default_local_cidr_any": ref.localAny,
		"conntrack":              map[string]any{"tcp_timeout": ref.tcpT.String(), "udp_timeout": ref.udpT.String(), "default_timeout": ref.defT.String()},
	}}
	in, out := w.genRules()
	ref.in, ref.out = in, out
	w.applyRules(in, out, true)
	w.V = sw.addNode(w.vSpec)
	if w.V == nil {
		return
	}
	for _, ps := range pspecs {
		nd := sw.addNode(ps.spec)
		if nd == nil {
			return
		}
		ps.p.node = nd
		pa := ps.p.addrs[0]
		for _, u := range ps.p.unsafe {
			// V routes the peer's unsafe network through that peer (unsafe_routes)
			w.V.tun.routes[u] = routing.Gateways{routing.NewGateway(pa, 1)}
		}
		ps.p.hostinfo = func() *HostInfo { return w.V.f.hostMap.QueryVpnAddr(pa) }
	}
	// real tunnels through real handshakes
	for _, p := range w.peers {
		w.V.f.handshakeManager.StartHandshake(p.addrs[0], nil)
	}
	sw.runUntil(1500 * time.Millisecond)
	for _, p := range w.peers {
		if p.hostinfo() == nil {
			rc.HarnessError("no tunnel to %s after the setup phase", p.name)
			return
		}
	}
	if tp.Chance(1, 3) {
		// start close to the wrap of the rules version counter
		v := uint16(65536 - 1 - tp.Choose(5))
		w.V.f.firewall.rulesVersion = v
		ref.version = v
	}
	if cacheOn {
		w.cache = firewall.ConntrackCache{} // marker: the routine cache is in use
		ref.cacheWindow = time.Duration(200+tp.Choose(1800)) * time.Millisecond
		// the real per-routine cache with its real ticker goroutine (on the bubble's clock)
		tctx, tcancel := context.WithCancel(context.Background())
		defer tcancel()
		w.ticker = firewall.NewConntrackCacheTicker(tctx, w.V.f.l, ref.cacheWindow)
	}
	rc.Trace("S-fw focus=%s peers=%d vnets=%d vunsafe=%d localAny=%v small=%v cache=%v in=%d out=%d", focus, np, len(vNets), len(vUnsafe), ref.localAny, small, cacheOn, len(in), len(out))
	for _, r := range in {
		rc.Logf("in  %v", r)
	}
	for _, r := range out {
		rc.Logf("out %v", r)
	}

	w.installRealPathOracle()

	steps := 80 + tp.Choose(200)
	if rc.Thorough() {
		steps = 300 + tp.Choose(1500)
	}
	lastCacheClear := sw.now
	prevIn, prevOut := slices.Clone(ref.in), slices.Clone(ref.out)
	var recent []firewall.Packet
	var recentPeer []*fwPeer
	var recentDir []bool
	for s := 0; s < steps && !rc.Failed(); s++ {
		if sw.steps >= sw.maxSteps {
			rc.Count("probe.event_budget_exhausted", 1)
			break // the simulated clock can no longer advance: stop here
		}
		switch tp.Weighted(12, 3, 2, 2) {
		case 0: // a packet through Drop
			var fp firewall.Packet
			var p *fwPeer
			var incoming bool
			if len(recent) > 0 && tp.Chance(1, 2) {
				// same flow again (possibly the opposite direction: firewall packets are locally oriented)
				i := len(recent) - 1 - tp.Choose(minInt(len(recent), 6))
				fp, p, incoming = recent[i], recentPeer[i], recentDir[i]
				if tp.Chance(1, 2) {
					incoming = !incoming
				}
				if tp.Chance(1, 6) {
					p = w.peers[tp.Choose(len(w.peers))] // same tuple claimed by another peer
				}
			} else {
				p = w.peers[tp.Choose(len(w.peers))]
				incoming = tp.Chance(1, 2)
				fp = w.genPacket(p)
			}
			w.dropAndCheck(fp, incoming, p)
			recent, recentPeer, recentDir = append(recent, fp), append(recentPeer, p), append(recentDir, incoming)
		case 1: // let time pass: around the timeouts, or a little
			var d time.Duration
			switch tp.Choose(5) {
			case 0:
				d = time.Duration(1+tp.Choose(500)) * time.Millisecond
			case 1:
				d = ref.udpT + time.Duration(tp.Choose(2001)-1000)*time.Millisecond
			case 2:
				d = ref.tcpT + time.Duration(tp.Choose(2001)-1000)*time.Millisecond
			case 3:
				d = ref.defT + time.Duration(tp.Choose(2001)-1000)*time.Millisecond
			case 4:
				d = time.Duration(1+tp.Choose(30)) * time.Second
			}
			if d < time.Millisecond {
				d = time.Millisecond
			}
			sw.runUntil(sw.now + d)
			rc.Count("ev.clock_advance", 1)
		case 2: // reload
			switch tp.Choose(9) {
			case 8: // back to the rule sets in force before the last change (A -> B -> A): what B made the node forget stays forgotten
				nin, nout := prevIn, prevOut
				prevIn, prevOut = slices.Clone(ref.in), slices.Clone(ref.out)
				w.applyRules(nin, nout, false)
				rc.Count("op.reload_revert", 1)
			case 6, 7: // same rules, other idle timeouts: tracked flows stay tracked, the new timeouts apply from their next packet
				was := [3]time.Duration{ref.tcpT, ref.udpT, ref.defT}
				ref.tcpT = time.Duration(1+tp.Choose(20)) * time.Second
				ref.udpT = time.Duration(1+tp.Choose(10)) * time.Second
				ref.defT = time.Duration(1+tp.Choose(15)) * time.Second
				w.versionOnly = was != [3]time.Duration{ref.tcpT, ref.udpT, ref.defT}
				deepMerge(w.baseCfg, map[string]any{"firewall": map[string]any{"conntrack": map[string]any{"tcp_timeout": ref.tcpT.String(), "udp_timeout": ref.udpT.String(), "default_timeout": ref.defT.String()}}})
				w.applyRules(ref.in, ref.out, false)
				rc.Count("op.reload_conntrack_timeouts", 1)
			case 5: // the node's certificate is re-issued (same key, same networks) with another set of unsafe networks
				nu := [][]netip.Prefix{nil, {netip.MustParsePrefix("192.168.50.0/24")}, {netip.MustParsePrefix("192.168.50.0/24"), netip.MustParsePrefix("192.168.60.0/24")},
					{netip.MustParsePrefix("192.168.60.0/24")}}[tp.Choose(4)]
				w.vSpec.id.issue(w.cas[0], cert.Version2, "victim", nb, na, vNets, nu, []string{"g1"})
				w.vSpec.unsafeNets = nu
				w.forceChanged = !slices.Equal(nu, ref.vUnsafe)
				ref.vUnsafe = nu
				if len(nu) > 0 {
					w.everUnsafe = true
				}
				w.applyRules(ref.in, ref.out, false)
				rc.Count("op.reload_reissued_unsafe_networks", 1)
			case 4: // same rule lists, default_local_cidr_any flipped: tracked flows must be judged again
				ref.localAny = !ref.localAny
				deepMerge(w.baseCfg, map[string]any{"firewall": map[string]any{"default_local_cidr_any": ref.localAny}})
				w.forceChanged = true
				w.applyRules(ref.in, ref.out, false)
				rc.Count("op.reload_local_cidr_any_flip", 1)
			case 0: // identical
				w.applyRules(ref.in, ref.out, false)
			case 1: // drop one rule
				nin, nout := slices.Clone(ref.in), slices.Clone(ref.out)
				if len(nin) > 0 && tp.Chance(1, 2) {
					i := tp.Choose(len(nin))
					nin = append(nin[:i], nin[i+1:]...)
				} else if len(nout) > 0 {
					i := tp.Choose(len(nout))
					nout = append(nout[:i], nout[i+1:]...)
				}
				prevIn, prevOut = slices.Clone(ref.in), slices.Clone(ref.out)
				w.applyRules(nin, nout, false)
			case 2: // add one rule
				nin, nout := slices.Clone(ref.in), slices.Clone(ref.out)
				if tp.Chance(1, 2) {
					nin = append(nin, w.genRule(true))
				} else {
					nout = append(nout, w.genRule(false))
				}
				prevIn, prevOut = slices.Clone(ref.in), slices.Clone(ref.out)
				w.applyRules(nin, nout, false)
			case 3: // new rule sets
				nin, nout := w.genRules()
				prevIn, prevOut = slices.Clone(ref.in), slices.Clone(ref.out)
				w.applyRules(nin, nout, false)
			}
			// right after the reload: packets of flows seen recently, mostly in the direction opposite to the one last
			// seen (the reply is the packet that needs the tracked flow and meets it first under the new version)
			probe := func() {
				for k, nk := 0, tp.Choose(4); k < nk && len(recent) > 0 && !rc.Failed(); k++ {
					i := len(recent) - 1 - tp.Choose(minInt(len(recent), 8))
					inc := recentDir[i]
					if tp.Chance(2, 3) {
						inc = !inc
					}
					w.dropAndCheck(recent[i], inc, recentPeer[i])
					rc.Count("probe.post_reload_packets", 1)
				}
			}
			probe()
			if tp.Chance(1, 4) && fmt.Sprint(prevIn, prevOut) != fmt.Sprint(ref.in, ref.out) && !rc.Failed() {
				// A -> B -> A in quick succession: what the node was made to forget under B stays forgotten under A
				nin, nout := prevIn, prevOut
				prevIn, prevOut = slices.Clone(ref.in), slices.Clone(ref.out)
				w.applyRules(nin, nout, false)
				rc.Count("op.reload_revert", 1)
				probe()
			}
		case 3: // real path: a (byzantine) peer sends a crafted inner packet through its tunnel; V sends one out
			p := w.peers[tp.Choose(len(w.peers))]
			fp := w.genPacket(p)
			if tp.Chance(1, 2) {
				w.realInbound(p, fp)
			} else {
				w.realOutbound(p, fp)
			}
		}
		_ = lastCacheClear // the cache is flushed by the real ConntrackCacheTicker
	}
	for k, v := range w.stats {
		rc.Count(k, int64(v))
	}
	rc.TraceQuiet(fmt.Sprintf("conn=%d exp=%d stale=%d rule=%d", bucket(int64(w.stats["probe.passed_by_tracking"])), bucket(int64(w.stats["probe.expired_flow_refused"])), bucket(int64(w.stats["probe.stale_flow_refused"])), bucket(int64(w.stats["probe.passed_by_rule"]))))
	if w.stats["probe.passed_by_tracking"] > 0 && w.stats["probe.passed_by_rule"] > 0 && (w.stats["probe.expired_flow_refused"] > 0 || w.stats["probe.stale_flow_refused"] > 0 || w.stats["probe.address_refused"] > 0) {
		rc.Nontrivial()
	}
	rc.Sample(map[string]any{"peers": np, "victim_networks": fmt.Sprint(vNets), "victim_unsafe": fmt.Sprint(vUnsafe), "inbound_rules": fmt.Sprint(in), "outbound_rules": fmt.Sprint(out),
		"timeouts": fmt.Sprintf("tcp=%v udp=%v default=%v", ref.tcpT, ref.udpT, ref.defT), "routine_cache": cacheOn, "steps": steps, "outcomes": w.stats})
}

func (w *sfwWorld) genPacket(p *fwPeer) firewall.Packet {
	tp := w.tp
	fp := firewall.Packet{}
	fp.Protocol = []uint8{firewall.ProtoTCP, firewall.ProtoUDP, firewall.ProtoUDP, firewall.ProtoICMP, 47, firewall.ProtoTCP}[tp.Choose(6)]
	ports := []uint16{53, 80, 443, 1000, 1003, 1005, 1010, 8080, 9}
	fp.LocalPort = ports[tp.Choose(len(ports))]
	fp.RemotePort = ports[tp.Choose(len(ports))]
	if tp.Chance(1, 8) {
		fp.Fragment = true
		fp.LocalPort, fp.RemotePort = 0, 0
	}
	if fp.Protocol == firewall.ProtoICMP {
		fp.LocalPort = 0
		fp.Fragment = false
	}
	if fp.Protocol == 47 {
		fp.LocalPort, fp.RemotePort = 0, 0
	}
	// remote address
	switch tp.Weighted(8, 2, 2, 1, 1) {
	case 0:
		fp.RemoteAddr = p.addrs[0]
	case 1:
		fp.RemoteAddr = p.addrs[tp.Choose(len(p.addrs))]
	case 2:
		if len(p.unsafe) > 0 {
			a := p.unsafe[0].Addr().As4()
			a[3] = byte(1 + tp.Choose(200))
			fp.RemoteAddr = netip.AddrFrom4(a)
		} else {
			fp.RemoteAddr = p.addrs[0]
		}
	case 3: // another peer's address (spoof)
		o := w.peers[tp.Choose(len(w.peers))]
		fp.RemoteAddr = o.addrs[0]
	case 4:
		fp.RemoteAddr = netip.AddrFrom4([4]byte{10, 128, 0, byte(100 + tp.Choose(50))})
	}
	// local address
	switch tp.Weighted(8, 2, 1) {
	case 0:
		fp.LocalAddr = w.ref.vAddrs[tp.Choose(len(w.ref.vAddrs))]
	case 1:
		if len(w.ref.vUnsafe) > 0 {
			a := w.ref.vUnsafe[0].Addr().As4()
			a[3] = byte(1 + tp.Choose(200))
			fp.LocalAddr = netip.AddrFrom4(a)
		} else if w.everUnsafe {
			// a network the node's certificate used to list (re-issued without it): no longer the node's
			fp.LocalAddr = netip.AddrFrom4([4]byte{192, 168, byte(50 + 10*tp.Choose(2)), byte(1 + tp.Choose(200))})
		} else {
			fp.LocalAddr = w.ref.vAddrs[0]
		}
	case 2:
		fp.LocalAddr = netip.AddrFrom4([4]byte{10, 128, 0, byte(200 + tp.Choose(50))})
	}
	return fp
}

// dropAndCheck runs the real firewall on one packet and compares with the model.
func (w *sfwWorld) dropAndCheck(fp firewall.Packet, incoming bool, p *fwPeer) {
	w.judge(fp, incoming, p, nil)
}

// judge compares one firewall decision with the model. act performs the
// action on the real path and reports whether the packet passed; nil means call
// Firewall.Drop directly.
func (w *sfwWorld) judge(fp firewall.Packet, incoming bool, p *fwPeer, act func() bool) {
	h := p.hostinfo()
	if h == nil {
		return
	}
	now := time.Now()
	ref := w.ref
	addrOK := ref.addrOK(fp, p)
	ruleOK := ref.allowed(fp, incoming, p)
	fl := ref.flows[fp]
	idle := time.Duration(0)
	flowLive, flowSurely, origStillAllowed := false, false, false
	if fl != nil {
		idle = now.Sub(fl.lastPass)
		// the deadline of a tracked flow was set when its last packet passed, with the timeout in force then (a later
		// reload that changes firewall.conntrack.* applies from the flow's next packet on)
		to := fl.to
		flowLive = idle <= to+ref.cacheWindow
		flowSurely = idle < to
		origStillAllowed = ref.allowed(fp, fl.incoming, p)
	}
	cacheMay := false
	if t, ok := w.lastPass[fp]; ok && w.cache != nil && now.Sub(t) <= ref.cacheWindow {
		cacheMay = true // the routine cache may answer for this tuple without looking at the tracked flow
	}
	var err error
	var passed bool
	if act == nil {
		err = w.V.f.firewall.Drop(fp, incoming, h, w.V.f.pki.GetCAPool(), w.ticker.Get())
		passed = err == nil
	} else {
		passed = act()
		if !passed {
			err = fmt.Errorf("not forwarded on the real packet path")
		}
	}
	dir := "out"
	if incoming {
		dir = "in"
	}
	desc := fmt.Sprintf("%s %s peer=%s(groups=%v ca=%s) remote=%v:%d local=%v:%d proto=%d frag=%v", w.now, dir, p.name, p.groups, p.caName, fp.RemoteAddr, fp.RemotePort, fp.LocalAddr, fp.LocalPort, fp.Protocol, fp.Fragment)
	w.rc.Logf("%s -> passed=%v (%v) addrOK=%v ruleOK=%v flow=%v idle=%v", desc, passed, err, addrOK, ruleOK, fl != nil, idle)
	switch {
	case !addrOK:
		w.stats["probe.address_refused"]++
		if passed {
			w.fail("C17", "address-not-authentic", "%s: passed although the remote address is not a certified address of the peer inside the node's networks / the peer's unsafe networks, or the local address is not the node's (peer addrs %v unsafe %v; node addrs %v unsafe %v)", desc, p.addrs, p.unsafe, ref.vAddrs, ref.vUnsafe)
		}
		return
	case ruleOK:
		if !passed {
			w.fail("C16", "rule-allows-but-dropped", "%s: a rule allows it but the firewall dropped it (%v)\nin rules:  %v\nout rules: %v", desc, err, ref.in, ref.out)
			return
		}
		w.lastPass[fp] = now
		if fl != nil && flowSurely && origStillAllowed {
			fl.refresh(now, ref.timeout(fp.Protocol), cacheMay)
			fl.rulesChanged = false
			w.stats["probe.passed_by_rule_with_flow"]++
		} else {
			delete(w.forgotten, fp)
			nf := &refFlow{incoming: incoming, lastPass: now, to: ref.timeout(fp.Protocol)}
			if fl != nil && cacheMay {
				// (answered by the cache, the older tracked entry and its deadline may still be there)
				if old := fl.lastPass.Add(fl.to); old.After(now.Add(nf.to)) {
					nf.to = old.Sub(now)
				}
			}
			ref.flows[fp] = nf
			w.stats["probe.passed_by_rule"]++
		}
		return
	}
	// no rule allows this packet: only a tracked flow can let it through
	if passed && act == nil && w.cache != nil {
		if t, ok := w.lastPass[fp]; ok && now.Sub(t) <= ref.cacheWindow {
			// the routine-local cache answers for a tuple it saw pass less than one cache window ago,
			// whatever happened to rules and tracked flows meanwhile (documented trade-off of that cache)
			// (a cache hit neither re-inserts the tuple nor refreshes the tracked flow: the allowance is
			// measured from the last pass that went through rules / conntrack, and ends with the cache's
			// next periodic flush)
			// Whether the cache or the tracked flow answered is not observable (a pass by rule does not enter the
			// cache, a pass by tracking does): if it was the tracked flow, its deadline was renewed with the timeout
			// in force now. The model keeps the later of the two deadlines (second false alarm of this kind, thorough
			// sweep seed 37: flow opened by rule under tcp_timeout 2s, timeouts reloaded to 6s in the same instant,
			// the reply passed by tracking — renewed to +6s — and was honoured again 5s later).
			if fl != nil {
				fl.refresh(now, ref.timeout(fp.Protocol), true)
			}
			w.stats["probe.passed_by_routine_cache"]++
			return
		}
	}
	if passed {
		w.lastPass[fp] = now
	}
	if passed {
		switch {
		case fl == nil && w.forgotten[fp]:
			w.fail("C19", "forgotten-flow-honoured", "%s: no rule allows it; its flow was refused after a reload because its original direction was no longer allowed, which forgets the flow — yet after a further reload it passes again without any packet a rule allows\nin rules:  %v\nout rules: %v", desc, ref.in, ref.out)
		case fl == nil:
			w.fail("C16", "no-rule-no-flow-passed", "%s: no rule allows it and no earlier allowed packet of this flow exists, yet it passed\nin rules:  %v\nout rules: %v", desc, ref.in, ref.out)
		case !flowLive:
			rf := w.V.f.firewall
			if sk.Verbose() {
				_, inCache := w.ticker.Get()[fp]
				ce := rf.Conntrack.Conns[fp]
				w.rc.Logf("debug: act=%v inCache=%v conn=%+v now=%v wheel=%+v", act != nil, inCache, ce, time.Now(), rf.Conntrack.TimerWheel)
			}
			w.fail("C18", "expired-flow-honoured", "%s: no rule allows it; the flow's last packet passed %v ago, timeout then %v, now %v (+%v routine cache), yet it passed (the firewall object's timeouts: tcp %v udp %v default %v)", desc, idle, fl.to, ref.timeout(fp.Protocol), ref.cacheWindow, rf.TCPTimeout, rf.UDPTimeout, rf.DefaultTimeout)
		case !origStillAllowed && (w.cache == nil || fl.rulesChanged):
			if w.cache != nil && idle <= ref.cacheWindow {
				// the routine-local cache may legitimately answer for one cache window
				fl.refresh(now, ref.timeout(fp.Protocol), cacheMay)
				return
			}
			w.fail("C19", "stale-flow-honoured", "%s: no rule allows it; its flow was created by a packet in direction incoming=%v that the current rules no longer allow, yet it passed\nin rules:  %v\nout rules: %v", desc, fl.incoming, ref.in, ref.out)
		default:
			fl.refresh(now, ref.timeout(fp.Protocol), cacheMay)
			fl.rulesChanged = false
			w.stats["probe.passed_by_tracking"]++
		}
		return
	}
	// dropped, no rule
	switch {
	case fl == nil:
		w.stats["probe.refused_no_rule"]++
	case !flowSurely:
		w.stats["probe.expired_flow_refused"]++
		if !flowLive {
			delete(ref.flows, fp)
		}
	case !origStillAllowed:
		w.stats["probe.stale_flow_refused"]++
		delete(ref.flows, fp)
		w.forgotten[fp] = true
	case !fl.rulesChanged && w.cache == nil:
		// (with the routine-local cache on, cache hits do not refresh the tracked flow's expiry, so
		// the model's idle time is only an upper bound and nothing is demanded)
		w.fail("C19", "fresh-flow-cut", "%s: the flow is tracked (last passed %v ago, timeout %v), its original direction is still allowed and no rule changed since, yet the packet was dropped (%v)", desc, idle, ref.timeout(fp.Protocol), err)
	default:
		// tracked, still allowed, but rules changed in between: the statement only says "passes only if"
		w.stats["probe.revalidated_flow_refused"]++
		delete(ref.flows, fp)
	}
}

// ---------------------------------------------------------------------------
// real packet path (C17)

func buildInner(fp firewall.Packet, incoming bool, id uint64) []byte {
	src, dst := fp.LocalAddr, fp.RemoteAddr
	sp, dp := fp.LocalPort, fp.RemotePort
	if incoming {
		src, dst = fp.RemoteAddr, fp.LocalAddr
		sp, dp = fp.RemotePort, fp.LocalPort
	}
	return simUDP(src, dst, sp, dp, markerPayload(id, 0))
}

func (w *sfwWorld) installRealPathOracle() {
	// inbound: whatever reaches V's tun must have authentic addresses for the peer that authenticated it
	w.onTun = func(n *simNode, pkt []byte) {
		if n != w.V {
			return
		}
		src, dst, _, _, payload, ok := simParseUDP(pkt)
		if !ok {
			return
		}
		id, ok := parseMarker(payload)
		if !ok {
			return
		}
		if id>>40 != 0 {
			return // not an inbound probe
		}
		p := w.peers[int(id>>32)%len(w.peers)]
		fp := firewall.Packet{RemoteAddr: src, LocalAddr: dst}
		w.seenIn[id] = true
		w.stats["probe.real_inbound_delivered"]++
		if !w.ref.addrOK(fp, p) {
			w.fail("C17", "delivered-spoofed-address", "a packet from peer %s (addrs %v, unsafe %v) with source %v destination %v was delivered to the node's tun (node addrs %v unsafe %v)", p.name, p.addrs, p.unsafe, src, dst, w.ref.vAddrs, w.ref.vUnsafe)
		}
	}
	// outbound: decrypt what V emits with the peer's receiving key
	w.onWire = func(from *simNode, d *simDatagram) {
		if from != w.V {
			return
		}
		var h header.H
		if err := h.Parse(d.data); err != nil || h.Type != header.Message || h.Subtype != header.MessageNone {
			return
		}
		for _, p := range w.peers {
			hi := p.node.f.hostMap.QueryIndex(h.RemoteIndex)
			if hi == nil || hi.ConnectionState == nil {
				continue
			}
			buf := append([]byte(nil), d.data...)
			out, err := hi.ConnectionState.dKey.DecryptDanger(nil, buf[:header.Len], buf[header.Len:], h.MessageCounter, make([]byte, 12))
			if err != nil {
				continue
			}
			src, dst, _, _, payload, ok := simParseUDP(out)
			if !ok {
				return
			}
			if id, ok := parseMarker(payload); ok {
				w.seenOut[id] = true
			}
			w.stats["probe.real_outbound_sent"]++
			fp := firewall.Packet{RemoteAddr: dst, LocalAddr: src}
			if !w.ref.addrOK(fp, p) {
				w.fail("C17", "sent-spoofed-address", "the node sent peer %s (addrs %v, unsafe %v) a packet with source %v destination %v (node addrs %v unsafe %v)", p.name, p.addrs, p.unsafe, src, dst, w.ref.vAddrs, w.ref.vUnsafe)
			}
			return
		}
	}
}

// realInbound: peer p (its own firewall bypassed) encrypts a crafted inner packet on its tunnel to V.
func (w *sfwWorld) realInbound(p *fwPeer, fp firewall.Packet) {
	pi := slices.Index(w.peers, p)
	hi := p.node.f.hostMap.QueryVpnAddr(w.ref.vAddrs[0])
	if hi == nil || hi.ConnectionState == nil || matchedPeerTunnel(hi, w.V) == nil {
		return // the tunnel is not complete at both ends right now (teardown/re-establishment in progress)
	}
	fp.Protocol, fp.Fragment = firewall.ProtoUDP, false // the crafted inner packet is plain UDP
	if w.tp.Chance(1, 8) && fp.RemoteAddr.Is4() && fp.LocalAddr.Is4() {
		// an IPv6 packet whose addresses are the IPv4-mapped spelling of certified IPv4 addresses: no certificate
		// lists those IPv6 addresses
		fp.RemoteAddr, fp.LocalAddr = netip.AddrFrom16(fp.RemoteAddr.As16()), netip.AddrFrom16(fp.LocalAddr.As16())
		w.stats["fault.inner_v4_mapped_v6"]++
	}
	w.pktSeq++
	id := uint64(pi)<<32 | w.pktSeq&0xffffffff
	inner := buildInner(fp, true, id)
	w.judge(fp, true, p, func() bool {
		p.node.f.sendNoMetrics(header.Message, 0, hi.ConnectionState, hi, netip.AddrPort{}, inner, make([]byte, 12), make([]byte, mtu), 0)
		w.stats["ev.real_inbound_sent"]++
		w.runUntil(w.now + 5*time.Millisecond)
		return w.seenIn[id]
	})
}

// realOutbound: an application on V sends a packet with arbitrary addresses.
func (w *sfwWorld) realOutbound(_ *fwPeer, fp firewall.Packet) {
	fp.Protocol, fp.Fragment = firewall.ProtoUDP, false
	// the tunnel V will pick is the one of the peer that owns the destination
	var owner *fwPeer
	for _, o := range w.peers {
		for _, a := range o.addrs {
			if a == fp.RemoteAddr {
				for _, n := range w.ref.vNets {
					if n.Contains(a) {
						owner = o
					}
				}
			}
		}
		for _, u := range o.unsafe {
			if u.Contains(fp.RemoteAddr) {
				owner = o
			}
		}
	}
	w.pktSeq++
	id := uint64(1)<<40 | w.pktSeq&0xffffffff
	inner := buildInner(fp, false, id)
	send := func() bool {
		w.V.sendInside(inner)
		w.stats["ev.real_outbound_injected"]++
		w.runUntil(w.now + 5*time.Millisecond)
		return w.seenOut[id]
	}
	if owner != nil && owner.hostinfo() != nil && matchedPeerTunnel(owner.hostinfo(), owner.node) == nil {
		return // tunnel not complete at both ends right now: the harness could not observe the packet at the peer
	}
	if owner == nil || owner.hostinfo() == nil {
		// no peer owns that destination: nothing may leave with it (checked by the wire oracle)
		send()
		return
	}
	w.judge(fp, false, owner, send)
}

package nebula

// C33 — timer wheel fires each item once, on time. Engine C: the wheel is
// driven by a simulated clock that the tape advances irregularly (many calls in
// one tick, gaps longer than a revolution, stalls), against a reference that
// only knows the statement: every item added to a wheel advanced to "now" comes
// back exactly once, not before its timeout rounded up to the tick (capped at
// the span) and no later than two ticks after that.

import (
	"fmt"
	"time"

	sk "github.com/slackhq/nebula/internal/verifsimkit"
)

func init() {
	sk.Register("C33.wheel", sk.Scenario{NoBubble: true, Run: runC33})
}

type c33Item struct {
	added    time.Time
	earliest time.Time
	latest   time.Time
	returned int
}

type c33Wheel interface {
	Add(v int, timeout time.Duration) *TimeoutItem[int]
	Purge() (int, bool)
	Advance(now time.Time)
}

func runC33(rc *sk.RunCtx) {
	tp := rc.Tape
	var tick, span time.Duration
	switch tp.Choose(6) {
	case 0: // handshake manager defaults
		tick, span = DefaultHandshakeTryInterval, hsTimeout(DefaultHandshakeRetries, DefaultHandshakeTryInterval)
	case 1: // connection manager defaults
		tick, span = 500*time.Millisecond, 10*time.Second
	case 2: // conntrack defaults (min/max of tcp 12m, udp 3m, default 10m)
		tick, span = 3*time.Minute, 12*time.Minute
	case 3:
		tick = time.Duration(1+tp.Choose(1000)) * time.Millisecond
		span = tick * time.Duration(1+tp.Choose(40))
	case 4:
		tick = time.Duration(1+tp.Choose(5000)) * time.Microsecond
		span = tick*time.Duration(1+tp.Choose(12)) + time.Duration(tp.Choose(int(tick)))
	case 5:
		tick = time.Duration(1+tp.Choose(50)) * time.Second
		span = tick + time.Duration(tp.Choose(int(20*time.Second)))
	}
	locking := tp.Chance(1, 3)
	var w c33Wheel
	var inner *TimerWheel[int]
	if locking {
		lw := NewLockingTimerWheel[int](tick, span)
		w, inner = lw, lw.t
	} else {
		inner = NewTimerWheel[int](tick, span)
		w = inner
	}
	steps := 100 + tp.Choose(700)
	if rc.Thorough() {
		steps = 300 + tp.Choose(6000)
	}
	fManyPerTick := tp.Chance(2, 3)
	fLongGap := tp.Chance(2, 3)
	fStall := tp.Chance(1, 2)
	fBurstAdd := tp.Chance(1, 2)
	// a consumer that does not drain Purge to empty after every Advance: a backlog of expired items stays in the
	// wheel across later Advances (nebula's own consumers drain, the statement quantifies over all purge histories)
	fPartial := tp.Chance(1, 2)
	rc.Trace("C33 wheelLen=%d locking=%v many=%v long=%v stall=%v burst=%v", inner.wheelLen, locking, fManyPerTick, fLongGap, fStall, fBurstAdd)
	rc.Logf("tick=%v span=%v steps=%d", tick, span, steps)

	now := time.Unix(1_700_000_000, int64(tp.Choose(1_000_000_000)))
	t0 := now
	items := []*c33Item{}
	pending := 0
	nAdds, nReturned, nCapped, nSubTick, nExact := 0, 0, 0, 0, 0
	gapClasses := [4]int64{}

	roundUp := func(d time.Duration) time.Duration {
		if d < tick {
			d = tick
		}
		if d > span {
			d = span
		}
		return ((d + tick - 1) / tick) * tick
	}

	nPartial := 0
	advanceAndCheck := func(limit int) bool {
		w.Advance(now)
		drained := false
		for n := 0; limit < 0 || n < limit; n++ {
			id, ok := w.Purge()
			if !ok {
				drained = true
				break
			}
			if id < 0 || id >= len(items) {
				rc.Fail("unknown-item", "wheel returned item %d that was never added", id)
				return false
			}
			it := items[id]
			it.returned++
			nReturned++
			if it.returned > 1 {
				rc.Fail("returned-twice", "item %d (added at +%v) returned %d times", id, it.added.Sub(t0), it.returned)
				return false
			}
			pending--
			if now.Before(it.earliest) {
				rc.Fail("early", "tick=%v span=%v: item %d added at +%v returned at +%v, earliest legal +%v", tick, span, id, it.added.Sub(t0), now.Sub(t0), it.earliest.Sub(t0))
				return false
			}
		}
		if !drained {
			// expired items may still sit in the backlog: lateness is judged at the next complete drain
			nPartial++
			return true
		}
		if pending > 0 {
			for id, it := range items {
				if it.returned == 0 && !now.Before(it.latest) {
					rc.Fail("late", "tick=%v span=%v: item %d added at +%v not returned by +%v (latest legal +%v)", tick, span, id, it.added.Sub(t0), now.Sub(t0), it.latest.Sub(t0))
					return false
				}
			}
		}
		return true
	}

	for s := 0; s < steps; s++ {
		// clock movement
		var dt time.Duration
		cls := tp.Weighted(6, 3, 2, 1)
		switch {
		case cls == 1 && fManyPerTick:
			dt = time.Duration(tp.Choose(int(tick)/4 + 1))
			gapClasses[1]++
		case cls == 2 && fLongGap:
			dt = tick*time.Duration(tp.Choose(3*inner.wheelLen)) + time.Duration(tp.Choose(int(tick)))
			gapClasses[2]++
			rc.Count("fault.long_gap", 1)
		case cls == 3 && fStall:
			dt = span*time.Duration(1+tp.Choose(5)) + time.Duration(tp.Choose(int(tick)))
			gapClasses[3]++
			rc.Count("fault.stall_over_revolution", 1)
		default:
			dt = tick/2 + time.Duration(tp.Choose(int(tick)+1))
			gapClasses[0]++
		}
		now = now.Add(dt)
		rc.AddSimTime(dt)
		limit := -1
		if fPartial && tp.Chance(1, 2) {
			limit = tp.Choose(4)
		}
		if !advanceAndCheck(limit) {
			return
		}
		// additions at the current time (the wheel was just advanced to now)
		adds := tp.Weighted(3, 5, 1)
		if adds == 2 {
			if fBurstAdd {
				adds = 2 + tp.Choose(30)
			} else {
				adds = 1
			}
		}
		for a := 0; a < adds; a++ {
			var d time.Duration
			switch tp.Choose(7) {
			case 0:
				d = tick * time.Duration(1+tp.Choose(int(span/tick)+1))
				nExact++
			case 1:
				d = time.Duration(tp.Choose(int(tick)))
				nSubTick++
			case 2:
				d = span
			case 3:
				d = span + time.Duration(1+tp.Choose(int(span)))
				nCapped++
			case 4:
				d = tick*time.Duration(tp.Choose(int(span/tick)+1)) + 1
			case 5:
				d = tick*time.Duration(1+tp.Choose(int(span/tick)+1)) - 1
			case 6:
				d = time.Duration(tp.Choose(int(span) + 1))
			}
			r := roundUp(d)
			id := len(items)
			items = append(items, &c33Item{added: now, earliest: now.Add(r), latest: now.Add(r + 2*tick)})
			w.Add(id, d)
			pending++
			nAdds++
		}
	}
	// drain: after span+3 ticks everything must be out
	now = now.Add(span + 3*tick)
	if !advanceAndCheck(-1) {
		return
	}
	if pending != 0 {
		rc.Fail("lost", "%d items never returned after a full span", pending)
		return
	}
	rc.Count("adds", int64(nAdds))
	rc.Count("returned", int64(nReturned))
	rc.Count("adds.capped_beyond_span", int64(nCapped))
	rc.Count("adds.below_tick", int64(nSubTick))
	rc.Count("adds.tick_multiple", int64(nExact))
	rc.Count("purge.left_backlog", int64(nPartial))
	rc.Count("advance.sub_tick", gapClasses[1])
	rc.Count("advance.normal", gapClasses[0])
	rc.TraceQuiet(fmt.Sprintf("adds=%d gaps=%d/%d/%d", bucket(int64(nAdds)), bucket(gapClasses[1]), bucket(gapClasses[2]), bucket(gapClasses[3])))
	if nAdds > 10 && gapClasses[2]+gapClasses[3] > 0 && gapClasses[1] > 0 {
		rc.Nontrivial()
	}
	rc.Sample(map[string]any{"tick": tick.String(), "span": span.String(), "locking": locking, "steps": steps, "adds": nAdds,
		"advances_sub_tick": gapClasses[1], "advances_long_gap": gapClasses[2], "advances_over_revolution": gapClasses[3]})
}

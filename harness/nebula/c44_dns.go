package nebula

// C44 — the DNS responder answers only from authenticated data. Engine A world:
// a lighthouse with serve_dns, peers with mixed-case names and IPv4/IPv6 overlay
// addresses joining through real handshakes (under faults, restarts, renamed
// re-issued certificates), plus peers whose handshakes must fail (untrusted CA,
// expired certificate). DNS queries (A, AAAA, TXT, other types, multi-question,
// mixed case, unknown names) arrive from loopback, the lighthouse's own overlay
// address and foreign addresses at tape-chosen points. The responder's socket is
// stubbed: its real handler is called with a recording ResponseWriter.

import (
	"testing/synctest"
	"fmt"
	"net"
	"net/netip"
	"strings"
	"time"

	"github.com/miekg/dns"
	"github.com/slackhq/nebula/cert"
	sk "github.com/slackhq/nebula/internal/verifsimkit"
)

func init() {
	sk.Register("C44.dns", sk.Scenario{Run: runC44})
}

type dnsRecorder struct {
	remote net.Addr
	msg    *dns.Msg
}

func (r *dnsRecorder) LocalAddr() net.Addr         { return &net.UDPAddr{IP: net.IPv4(127, 0, 0, 1), Port: 53} }
func (r *dnsRecorder) RemoteAddr() net.Addr        { return r.remote }
func (r *dnsRecorder) WriteMsg(m *dns.Msg) error   { r.msg = m; return nil }
func (r *dnsRecorder) Write(b []byte) (int, error) { return len(b), nil }
func (r *dnsRecorder) Close() error                { return nil }
func (r *dnsRecorder) TsigStatus() error           { return nil }
func (r *dnsRecorder) TsigTimersOnly(bool)         {}
func (r *dnsRecorder) Hijack()                     {}

func runC44(rc *sk.RunCtx) {
	tp := rc.Tape
	horizon := time.Duration(15+tp.Choose(30)) * time.Second
	if rc.Thorough() {
		horizon = time.Duration(30+tp.Choose(120)) * time.Second
	}
	names := []string{"Lighthouse", "Alpha", "BRAVO", "charlie.Example", "dELTA", "Echo"}
	mw := buildMesh(rc, meshOpts{minNodes: 3, maxNodes: 5, allowLighthouse: true, forceLH: true, multiAddr: true, v6Overlay: true, withDNS: true, horizon: horizon,
		nameFn: func(i int) string { return names[i%len(names)] },
		extra: func(i int, s *nodeSpec) {
			if i == 0 {
				deepMerge(s.extra, map[string]any{"lighthouse": map[string]any{"serve_dns": true, "dns": map[string]any{"host": "127.0.0.1", "port": 5353}}})
			}
		}})
	if rc.Failed() {
		return
	}
	defer mw.stopAll()
	L := mw.nodes[0]
	if L.f.dnsServer == nil {
		rc.HarnessError("lighthouse has no DNS responder")
		return
	}
	// peers that must never make it into DNS
	now := time.Now()
	badCA := newSimCA(cert.Version2, mw.ca.curve, "other-ca", now.Add(-time.Hour), now.Add(1000*time.Hour), nil, nil, nil)
	addBad := func(name string, id *simIdentity, i int) {
		id.trust = []*simCA{mw.ca}
		spec := &nodeSpec{name: name, nets: []netip.Prefix{overlayAddr(i, 0)}, udp: underlayAddr(i, 0), id: id, lhHosts: []string{overlayAddr(0, 0).Addr().String()},
			static: map[string][]string{overlayAddr(0, 0).Addr().String(): {underlayAddr(0, 0).String()}}}
		if nd := mw.addNode(spec); nd != nil {
			mw.specs = append(mw.specs, spec)
			mw.control = append(mw.control, &Control{f: nd.f, l: simLogger})
		}
	}
	nbase := len(mw.nodes)
	if tp.Chance(2, 3) {
		addBad("Mallory", newSimIdentity(badCA, []cert.Version{cert.Version2}, "Mallory", mw.notBefore, mw.notAfter, []netip.Prefix{overlayAddr(len(mw.nodes), 0)}, nil, nil), len(mw.nodes))
	}
	if tp.Chance(2, 3) {
		// same name as an honest peer, with a certificate that expires a few seconds into the run:
		// whatever it manages to join with while valid is legitimate, nothing afterwards
		addBad("Alpha-expiring", newSimIdentity(mw.ca, []cert.Version{cert.Version2}, "Alpha", now.Add(-50*time.Minute), now.Add(time.Duration(1+tp.Choose(5))*time.Second), []netip.Prefix{overlayAddr(len(mw.nodes), 0)}, nil, nil), len(mw.nodes))
	}
	untrustedNames := map[string]bool{"mallory.": true}

	// ground truth: addresses of certificates whose handshake completed at the lighthouse
	truth := map[string]map[netip.Addr]bool{}
	add := func(name string, a netip.Addr) {
		k := strings.ToLower(name) + "."
		if truth[k] == nil {
			truth[k] = map[netip.Addr]bool{}
		}
		truth[k][a] = true
	}
	seenHI := map[*HostInfo]bool{}
	dnsOn := true
	// the responder's records start afresh (the node's own name only) when the lighthouse process starts and when
	// serve_dns is switched on by a reload: "a later re-enable will repopulate from fresh handshakes"
	resetTruth := func() {
		clear(truth)
		for _, p := range L.spec.nets {
			add(L.spec.id.certs[0].Name(), p.Addr())
		}
	}
	resetTruth()
	collect := func() {
		if mw.nodes[0] != L {
			// the lighthouse was restarted: a new process, a new responder
			L = mw.nodes[0]
			clear(seenHI)
			resetTruth()
		}
		for _, h := range sortedHostInfos(L.f.hostMap) {
			if seenHI[h] || h.ConnectionState == nil || h.ConnectionState.peerCert == nil {
				continue
			}
			seenHI[h] = true
			if !dnsOn {
				continue // completed while the responder was switched off: not recorded
			}
			for _, a := range h.vpnAddrs {
				add(h.ConnectionState.peerCert.Certificate.Name(), a)
			}
		}
	}
	toggleDNS := func() {
		collect()
		if !L.alive {
			return
		}
		dnsOn = !dnsOn
		deepMerge(L.spec.extra, map[string]any{"lighthouse": map[string]any{"serve_dns": dnsOn}})
		if err := L.reload(L.spec.configYAML()); err != nil {
			rc.HarnessError("reload: %v", err)
			return
		}
		synctest.Wait() // the reload starts the listener goroutine, which returns at once (its context is not live)
		rc.Count("op.reload_serve_dns", 1)
		if dnsOn {
			resetTruth()
		} else {
			clear(truth)
		}
	}
	mw.afterEvent = func(string) { collect() }
	mw.afterDeliver = func(to *simNode, d *simDatagram) {
		if to == L {
			collect()
		}
	}
	stats := map[string]int{}
	query := func() {
		collect()
		if !dnsOn {
			return // the responder is not listening
		}
		m := new(dns.Msg)
		m.Id = uint16(tp.Choose(65536))
		m.Opcode = dns.OpcodeQuery
		nq := 1
		if tp.Chance(1, 5) {
			nq = 2 + tp.Choose(2)
		}
		for i := 0; i < nq; i++ {
			var name string
			switch tp.Choose(6) {
			case 0, 1, 2:
				name = names[tp.Choose(len(names))]
				switch tp.Choose(3) {
				case 0:
					name = strings.ToLower(name)
				case 1:
					name = strings.ToUpper(name)
				}
				name += "."
			case 3:
				name = []string{"mallory.", "nobody.", "alpha.example.", "alph."}[tp.Choose(4)]
			case 4:
				nd := mw.nodes[tp.Choose(len(mw.nodes))]
				name = nd.spec.nets[tp.Choose(len(nd.spec.nets))].Addr().String() + "."
			case 5:
				name = fmt.Sprintf("10.128.0.%d.", 100+tp.Choose(50))
			}
			qt := []uint16{dns.TypeA, dns.TypeAAAA, dns.TypeTXT, dns.TypeMX, dns.TypeA}[tp.Choose(5)]
			m.Question = append(m.Question, dns.Question{Name: name, Qtype: qt, Qclass: dns.ClassINET})
		}
		var client netip.AddrPort
		clientKind := tp.Choose(4)
		switch clientKind {
		case 0:
			client = netip.MustParseAddrPort("127.0.0.1:40000")
		case 1:
			client = netip.AddrPortFrom(L.vpnAddr(), 40001)
		case 2:
			client = netip.MustParseAddrPort("8.8.8.8:53")
		case 3:
			o := mw.nodes[1+tp.Choose(len(mw.nodes)-1)]
			client = netip.AddrPortFrom(o.vpnAddr(), 40002)
		}
		local := clientKind <= 1
		rec := &dnsRecorder{remote: net.UDPAddrFromAddrPort(client)}
		L.f.dnsServer.handleDnsRequest(rec, m)
		stats["probe.queries"]++
		if rec.msg == nil {
			rc.Fail("no-reply", "the responder wrote no reply for %v", m.Question)
			return
		}
		rep := rec.msg
		desc := fmt.Sprintf("t=%v client=%v questions=%v -> rcode=%s answers=%v", mw.now, client, m.Question, dns.RcodeToString[rep.Rcode], rep.Answer)
		rc.Logf("%s", desc)
		// (the reply echoes — and the responder handles — only the questions of the reply's own
		// question section; miekg/dns keeps the first question of a multi-question query)
		anyKnown := false
		for _, q := range rep.Question {
			if (q.Qtype == dns.TypeA || q.Qtype == dns.TypeAAAA) && truth[strings.ToLower(q.Name)] != nil {
				anyKnown = true
			}
		}
		for _, rr := range rep.Answer {
			name := strings.ToLower(rr.Header().Name)
			switch v := rr.(type) {
			case *dns.A:
				a, _ := netip.AddrFromSlice(v.A.To4())
				if !truth[name][a] || !a.Is4() {
					rc.Fail("unauthenticated-answer", "%s: A record %s -> %v does not come from the certificate of a peer that completed a handshake (known for that name: %v)", desc, name, a, keysOf(truth[name]))
					return
				}
				if untrustedNames[name] {
					rc.Fail("unauthenticated-answer", "%s: answered for %s which never passed certificate verification", desc, name)
					return
				}
				stats["probe.a_answers"]++
			case *dns.AAAA:
				a, _ := netip.AddrFromSlice(v.AAAA)
				if !truth[name][a] || a.Is4() {
					rc.Fail("unauthenticated-answer", "%s: AAAA record %s -> %v does not come from the certificate of a peer that completed a handshake (known: %v)", desc, name, a, keysOf(truth[name]))
					return
				}
				stats["probe.aaaa_answers"]++
			case *dns.TXT:
				if !local {
					rc.Fail("cert-details-to-foreign-client", "%s: certificate details were returned to a client that is neither loopback nor one of the node's own overlay addresses", desc)
					return
				}
				// must be the certificate of the peer at that address (or the node's own)
				ipName := strings.TrimSuffix(rr.Header().Name, ".")
				ip, err := netip.ParseAddr(ipName)
				if err != nil {
					rc.Fail("cert-details-for-non-address", "%s: TXT answer for a name that is not an overlay address", desc)
					return
				}
				want := ""
				if ip == L.vpnAddr() || containsAddr(L.f.myVpnAddrs, ip) {
					b, _ := L.f.pki.getCertState().GetDefaultCertificate().MarshalJSON()
					want = string(b)
				} else if h := L.f.hostMap.QueryVpnAddr(ip); h != nil && h.GetCert() != nil {
					b, _ := h.GetCert().Certificate.MarshalJSON()
					want = string(b)
				}
				got := strings.Join(v.Txt, "")
				if want == "" || normalizeTXT(got) != normalizeTXT(want) {
					rc.Fail("wrong-cert-details", "%s: TXT answer for %v is not the certificate of the peer holding that address", desc, ip)
					return
				}
				stats["probe.txt_answers"]++
			default:
				rc.Fail("unexpected-record", "%s: unexpected record type in answer", desc)
				return
			}
		}
		if rep.Rcode == dns.RcodeNameError && anyKnown {
			rc.Fail("nxdomain-for-known-name", "%s: NXDOMAIN although a queried name belongs to a peer that completed a handshake", desc)
			return
		}
		if rep.Rcode == dns.RcodeNameError {
			stats["probe.nxdomain"]++
		}
		// a known name without a record of the asked family: success with no answer for it
		if rep.Rcode == dns.RcodeSuccess && len(rep.Answer) == 0 && anyKnown {
			stats["probe.empty_noerror"]++
		}
	}
	nw := 30 + tp.Choose(50)
	nops := 5 + tp.Choose(12)
	nq := 40 + tp.Choose(120)
	if rc.Thorough() {
		nw, nops, nq = nw*3, nops*3, nq*3
	}
	mw.scheduleWorkload(nw, 0, horizon)
	mw.scheduleOperator(nops, 2*time.Second, horizon, []string{"rehandshake", "close", "restart", "burst", "partition"})
	// the bad peers keep trying
	for i := nbase; i < len(mw.nodes); i++ {
		i := i
		for k := 0; k < 4; k++ {
			at := time.Duration(tp.Choose(int(horizon/time.Millisecond))) * time.Millisecond
			mw.at(at, "bad-peer-handshake", func() {
				if mw.nodes[i].alive {
					mw.nodes[i].f.handshakeManager.StartHandshake(L.vpnAddr(), nil)
					stats["ev.bad_peer_handshake"]++
				}
			})
		}
	}
	for k := 0; k < nq; k++ {
		at := time.Duration(tp.Choose(int(horizon/time.Millisecond))) * time.Millisecond
		mw.at(at, "dns-query", query)
	}
	if tp.Chance(1, 2) {
		// serve_dns switched off and on again by reloads; peers re-handshake afterwards
		for k, nk := 0, 1+tp.Choose(4); k < nk; k++ {
			at := 2*time.Second + time.Duration(tp.Choose(int((horizon-2*time.Second)/time.Millisecond)))*time.Millisecond
			mw.at(at, "dns-toggle", toggleDNS)
			i := 1 + tp.Choose(nbase-1)
			mw.at(at+time.Duration(100+tp.Choose(3000))*time.Millisecond, "rehandshake-after-toggle", func() { mw.opRehandshake(i, 0) })
		}
	}
	mw.runUntil(horizon)
	for k, v := range stats {
		rc.Count(k, int64(v))
	}
	rc.TraceQuiet(fmt.Sprintf("q=%d a=%d aaaa=%d txt=%d nx=%d", bucket(int64(stats["probe.queries"])), bucket(int64(stats["probe.a_answers"])), stats["probe.aaaa_answers"], stats["probe.txt_answers"], bucket(int64(stats["probe.nxdomain"]))))
	if stats["probe.a_answers"] > 0 && stats["probe.nxdomain"] > 0 {
		rc.Nontrivial()
	}
	rc.Sample(map[string]any{"nodes": len(mw.nodes), "known_names": len(truth), "outcomes": stats})
}

func keysOf(m map[netip.Addr]bool) []netip.Addr {
	var o []netip.Addr
	for k := range m {
		o = append(o, k)
	}
	return o
}

func containsAddr(l []netip.Addr, a netip.Addr) bool {
	for _, x := range l {
		if x == a {
			return true
		}
	}
	return false
}

// normalizeTXT removes the quoting/escaping differences of the zone-file presentation format.
func normalizeTXT(s string) string {
	r := strings.NewReplacer("\\", "", "\"", "", " ", "")
	return r.Replace(s)
}

package nebula

// C09 — tunnels are bound to the certified overlay address. Engine A: S-mesh
// with static / lighthouse / relay discovery, v1/v2 mixes, multi-address peers,
// a wrong responder at the expected underlay address, and a certified peer
// whose certificate also claims another node's address. After every event,
// every tunnel reachable from any hostmap is checked against the certificate
// that authenticated it and against the simulator's ground truth.

import (
	"errors"
	"fmt"
	"net/netip"
	"slices"
	"time"

	"github.com/slackhq/nebula/cert"
	"github.com/slackhq/nebula/handshake"
	"github.com/slackhq/nebula/header"
	sk "github.com/slackhq/nebula/internal/verifsimkit"
)

func init() {
	sk.Register("C09.mesh", sk.Scenario{Run: func(rc *sk.RunCtx) { runC09(rc, false) }})
	// C05 on the whole node (HandshakeManager's certificate verifier, not only handshake.Machine): the same world
	// with the certificate thief always present
	sk.Register("C05.mesh", sk.Scenario{Run: func(rc *sk.RunCtx) { runC09(rc, true) }})
}

type bindingOracle struct {
	rc        *sk.RunCtx
	mw        *meshWorld
	crossOK   int
	wrongResp int
	sigOK     map[cert.Certificate]bool
	// dialled remembers, for every tunnel object seen in a node's pending (initiator side) table, the overlay
	// address the handshake was started for
	dialled map[*HostInfo]netip.Addr
}

func certAddrs(c cert.Certificate) []netip.Addr {
	var o []netip.Addr
	for _, p := range c.Networks() {
		o = append(o, p.Addr())
	}
	return o
}

func (o *bindingOracle) check(n *simNode, ev string, deep bool) bool {
	rc := o.rc
	hm := n.f.hostMap
	own := n.f.myVpnAddrs
	if o.dialled == nil {
		o.dialled = map[*HostInfo]netip.Addr{}
	}
	for _, a := range sortedAddrs(n.f.handshakeManager.vpnIps) {
		hh := n.f.handshakeManager.vpnIps[a]
		if _, seen := o.dialled[hh.hostinfo]; !seen {
			o.dialled[hh.hostinfo] = a
		}
	}
	for _, h := range sortedHostInfos(hm) {
		if a, ok := o.dialled[h]; ok && h.ConnectionState != nil && h.ConnectionState.peerCert != nil {
			if !slices.Contains(certAddrs(h.ConnectionState.peerCert.Certificate), a) {
				rc.Fail("different-host-answered", "node %d after %s: the handshake it started for %v completed into tunnel %d with a host whose certificate lists %v", n.idx, ev, a, h.localIndexId, certAddrs(h.ConnectionState.peerCert.Certificate))
				return false
			}
		}
		cs := h.ConnectionState
		if cs == nil || cs.peerCert == nil || cs.peerCert.Certificate == nil {
			rc.Fail("no-verified-cert", "node %d after %s: tunnel %d (%v) in the hostmap without a verified peer certificate", n.idx, ev, h.localIndexId, h.vpnAddrs)
			return false
		}
		want := certAddrs(cs.peerCert.Certificate)
		if !slices.Equal(h.vpnAddrs, want) {
			rc.Fail("addrs-differ-from-cert", "node %d after %s: tunnel %d records peer addresses %v, its certificate lists %v", n.idx, ev, h.localIndexId, h.vpnAddrs, want)
			return false
		}
		for _, a := range h.vpnAddrs {
			if slices.Contains(own, a) {
				rc.Fail("tunnel-to-self", "node %d after %s: tunnel %d is to one of the node's own addresses (%v)", n.idx, ev, h.localIndexId, a)
				return false
			}
		}
		// the certificate must really be trusted right now-or-earlier: re-verify signature chain against the CA used by the world
		if o.sigOK == nil {
			o.sigOK = map[cert.Certificate]bool{}
		}
		ok, known := o.sigOK[cs.peerCert.Certificate]
		if !known {
			ok = cs.peerCert.Certificate.CheckSignature(o.mw.ca.crt.PublicKey())
			o.sigOK[cs.peerCert.Certificate] = ok
		}
		if !ok {
			rc.Fail("untrusted-cert", "node %d after %s: tunnel %d holds a certificate not signed by the trusted CA", n.idx, ev, h.localIndexId)
			return false
		}
	}
	hm.RLock()
	for _, a := range sortedAddrs(hm.Hosts) {
		for _, h := range hm.unlockedGetHostList(a) {
			if h.ConnectionState == nil || h.ConnectionState.peerCert == nil {
				continue // reported above
			}
			if !slices.Contains(certAddrs(h.ConnectionState.peerCert.Certificate), a) {
				hm.RUnlock()
				rc.Fail("address-not-in-cert", "node %d after %s: address %v is served by tunnel %d whose certificate lists %v", n.idx, ev, a, h.localIndexId, certAddrs(h.ConnectionState.peerCert.Certificate))
				return false
			}
		}
	}
	hm.RUnlock()
	if !deep {
		return true
	}
	// ground truth: whoever holds the other end of the session is the owner of the certificate
	for _, h := range sortedHostInfos(hm) {
		if h.ConnectionState == nil || h.ConnectionState.peerCert == nil {
			continue
		}
		for _, p := range o.mw.nodes {
			if p == n || !p.alive {
				continue
			}
			ph := p.f.hostMap.QueryIndex(h.remoteIndexId)
			if ph == nil || ph.remoteIndexId != h.localIndexId || ph.ConnectionState == nil {
				continue
			}
			// confirm it is the same session with a decrypt probe: p encrypts, n's key must open it
			if !sessionsMatch(ph, h) {
				continue
			}
			fp := h.ConnectionState.peerCert.Fingerprint
			if !slices.Contains(p.spec.id.fingerprints(), fp) {
				rc.Fail("cert-of-other-node", "node %d after %s: tunnel %d is keyed with node %d but holds a certificate (%s) that is not that node's", n.idx, ev, h.localIndexId, p.idx, fp)
				return false
			}
			o.crossOK++
		}
	}
	return true
}

// sessionsMatch reports whether a's sending key is b's receiving key, without
// consuming a message counter (the probe uses a counter far in the future and
// does not touch the replay window).
func sessionsMatch(a, b *HostInfo) bool {
	nb := make([]byte, 12)
	const probeCtr = uint64(1) << 50
	ct, err := a.ConnectionState.eKey.EncryptDanger(nil, []byte("probe-ad"), []byte("probe"), probeCtr, nb)
	if err != nil {
		return false
	}
	pt, err := b.ConnectionState.dKey.DecryptDanger(nil, []byte("probe-ad"), ct, probeCtr, nb)
	return err == nil && string(pt) == "probe"
}

func runC09(rc *sk.RunCtx, forceThief bool) {
	tp := rc.Tape
	thief := tp.Chance(1, 2) || forceThief
	horizon := time.Duration(15+tp.Choose(30)) * time.Second
	if rc.Thorough() {
		horizon = time.Duration(30+tp.Choose(120)) * time.Second
	}
	wrongResponder := tp.Chance(1, 2)
	claimer := tp.Chance(1, 2)
	var mwp *meshWorld
	mw := buildMesh(rc, meshOpts{minNodes: 3, maxNodes: 5, allowLighthouse: true, allowRelay: true, multiAddr: true, allowV1: true, allowP256: true, horizon: horizon,
		extra: func(i int, spec *nodeSpec) {
			_ = mwp
			if claimer && spec.static != nil {
				// every node can dial the address claimer that joins later (its index is the node count, 3..5) under
				// either of its possible own addresses, so that the claimer also shows up as a RESPONDER
				for k := 3; k <= 5; k++ {
					if k != i {
						spec.static[overlayAddr(k, 0).Addr().String()] = []string{underlayAddr(k, 0).String()}
					}
				}
			}
			if wrongResponder && i == 1 {
				// node 1 believes node 2 lives at node 0's... pick the underlay address of a different node
				spec.static[overlayAddr(2, 0).Addr().String()] = []string{underlayAddr(0, 0).String(), underlayAddr(2, 0).String()}
			}
		}})
	if rc.Failed() {
		return
	}
	defer mw.stopAll()
	or := &bindingOracle{rc: rc, mw: mw}
	if claimer {
		// a certified node whose certificate also lists another node's primary address, before or after its
		// own address(es) in the certificate's (sorted) network list
		i := len(mw.nodes)
		victim := tp.Choose(len(mw.specs))
		// any of the victim's addresses (a second address is not in the victim's v1 certificate, so a claimer that
		// is dialled with that certificate does not see the clash and answers)
		claimed := mw.specs[victim].nets[tp.Choose(len(mw.specs[victim].nets))]
		if claimed.Addr().Is6() {
			claimed = mw.specs[victim].nets[0]
		}
		low := netip.PrefixFrom(netip.AddrFrom4([4]byte{10, 127, 0, byte(i + 1)}), 24)
		spec := &nodeSpec{name: fmt.Sprintf("claimer%d", i), udp: underlayAddr(i, 0)}
		switch tp.Choose(3) {
		case 0:
			spec.nets = []netip.Prefix{overlayAddr(i, 0), claimed}
		case 1:
			spec.nets = []netip.Prefix{low, claimed}
		case 2:
			spec.nets = []netip.Prefix{low, claimed, overlayAddr(i, 0)}
		}
		spec.id = newSimIdentity(mw.ca, []cert.Version{cert.Version2}, spec.name, mw.notBefore, mw.notAfter, spec.nets, nil, nil)
		spec.static = map[string][]string{}
		for j := range mw.specs {
			spec.static[overlayAddr(j, 0).Addr().String()] = []string{underlayAddr(j, 0).String()}
		}
		// the claimer cannot address its victim by the claimed address (it believes that address is its own), so it
		// reaches the victim's underlay through a decoy overlay address and initiates handshakes there
		decoy := netip.AddrFrom4([4]byte{10, 128, 0, 250})
		spec.static[decoy.String()] = []string{mw.specs[victim].udp.String()}
		own := spec.nets[0].Addr()
		for k, m := 0, 2+tp.Choose(5); k < m; k++ {
			at := time.Second + time.Duration(tp.Choose(int(horizon/time.Millisecond)))*time.Millisecond
			mw.at(at, "claimer-initiates", func() {
				if nd := mw.nodes[i]; nd.alive {
					nd.sendInside(simUDP(own, decoy, 999, 999, []byte("claimer")))
					rc.Count("probe.claimer_initiated_to_victim", 1)
				}
			})
		}
		mw.specs = append(mw.specs, spec)
		nd := mw.addNode(spec)
		if nd == nil {
			return
		}
		mw.control = append(mw.control, &Control{f: nd.f, l: simLogger})
		rc.Count("probe.claimer_present", 1)
	}
	mw.afterEvent = func(name string) {
		for _, n := range mw.nodes {
			if n.alive && !or.check(n, name, mw.steps%8 == 0) {
				return
			}
		}
	}
	nw := 40 + tp.Choose(60)
	nops := 10 + tp.Choose(30)
	if rc.Thorough() {
		nw, nops = nw*3, nops*3
	}
	mw.scheduleWorkload(nw, 0, horizon)
	mw.scheduleOperator(nops, time.Second, horizon, []string{"rehandshake", "close", "close-local", "restart", "stall", "partition", "burst"})
	// certificate thief: an uncertified party that saw a node's certificate on the wire (first handshake messages
	// carry it) starts handshakes presenting that certificate with a static key of its own, also towards nodes
	// that already hold a tunnel with the certificate's owner. It must never get a tunnel.
	if thief {
		suite, err := newCipherSuite(mw.ca.crt.Curve(), false, "aes", false)
		if err != nil {
			rc.HarnessError("cipher suite: %v", err)
			return
		}
		for k, m := 0, 3+tp.Choose(10); k < m; k++ {
			at := time.Second + time.Duration(tp.Choose(int(horizon/time.Millisecond)))*time.Millisecond
			vi, ti := tp.Choose(len(mw.specs)), tp.Choose(len(mw.specs))
			idx := uint32(1 + tp.Choose(1<<30))
			mw.at(at, "thief-handshake", func() {
				if vi == ti || vi >= len(mw.nodes) || ti >= len(mw.nodes) || !mw.nodes[ti].alive {
					return
				}
				T := mw.nodes[ti]
				stolen := mw.nodes[vi].spec.id.certs[len(mw.nodes[vi].spec.id.certs)-1]
				hb, err := stolen.MarshalForHandshakes()
				if err != nil {
					return
				}
				// The thief's Noise static keypair is its own (a Credential takes the public half from its certificate
				// object, so the local object is a throw-away certificate over the thief's key); what goes on the wire
				// is the stolen certificate's handshake encoding, which carries no public key: the responder rebuilds
				// the certificate around the static key it was shown, and the CA signature cannot match.
				tca := newSimCA(stolen.Version(), stolen.Curve(), "thief-ca", mw.notBefore, mw.notAfter, nil, nil, nil)
				tid := newSimIdentity(tca, []cert.Version{stolen.Version()}, "thief", mw.notBefore, mw.notAfter, stolen.Networks(), nil, nil)
				cred := handshake.NewCredential(tid.cert(stolen.Version()), hb, tid.priv, suite)
				m, err := handshake.NewMachine(stolen.Version(), func(v cert.Version) *handshake.Credential {
					if v == stolen.Version() {
						return cred
					}
					return nil
				}, func(c cert.Certificate) (*cert.CachedCertificate, error) { return nil, errors.New("unused") },
					func() (uint32, error) { return idx, nil }, true, header.HandshakeIXPSK0)
				if err != nil {
					rc.HarnessError("thief machine: %v", err)
					return
				}
				msg1, err := m.Initiate(nil)
				if err != nil {
					rc.HarnessError("thief initiate: %v", err)
					return
				}
				from := netip.AddrPortFrom(netip.AddrFrom4([4]byte{198, 51, 100, byte(1 + k)}), 4242)
				mw.pump()
				T.recvBatch([]*simDatagram{{from: from, to: T.conn.addr, data: msg1, src: -1}})
				rc.Count("probe.thief_handshakes", 1)
				for _, h := range sortedHostInfos(T.f.hostMap) {
					if h.remoteIndexId == idx {
						rc.Fail("stolen-certificate-accepted", "node %d installed tunnel %d for %v from a handshake that presented node %d's certificate with a different static key", T.idx, h.localIndexId, h.vpnAddrs, vi)
						return
					}
				}
			})
		}
	}
	// trust changes while a handshake is in flight: node i dials j and, before the reply is back, a reload
	// blocklists j's certificate on i. A tunnel to j that appears on i after that reload was authenticated
	// against trust that no longer holds.
	if forceThief {
		type blk struct {
			fps   []string
			known map[*HostInfo]bool
		}
		blocked := map[int]map[int]*blk{}
		for k, m := 0, tp.Choose(4); k < m; k++ {
			at := 2*time.Second + time.Duration(tp.Choose(int(horizon/time.Millisecond)))*time.Millisecond
			i, j := tp.Choose(len(mw.specs)), tp.Choose(len(mw.specs))
			mw.at(at, "blocklist-during-handshake", func() {
				if i == j || i >= len(mw.nodes) || j >= len(mw.nodes) || !mw.nodes[i].alive || !mw.nodes[j].alive || (mw.useLH && (i == 0 || j == 0)) {
					return
				}
				ni := mw.nodes[i]
				mw.opCloseTunnel(i, j, true)
				mw.appSend(i, j, 0) // first handshake message leaves now, the reply needs a network round trip
				spec := *ni.spec
				spec.extra = map[string]any{}
				deepMerge(spec.extra, ni.spec.extra)
				var fps []any
				for _, f := range mw.nodes[j].spec.id.fingerprints() {
					fps = append(fps, f)
				}
				// keep what earlier events of this kind blocklisted on this node
				for _, jj := range []int{0, 1, 2, 3, 4, 5, 6} {
					if b := blocked[i][jj]; b != nil && jj != j {
						for _, f := range b.fps {
							fps = append(fps, f)
						}
					}
				}
				deepMerge(spec.extra, map[string]any{"pki": map[string]any{"blocklist": fps}})
				if err := ni.reload(spec.configYAML()); err != nil {
					rc.HarnessError("reload: %v", err)
					return
				}
				ni.spec = &spec
				mw.specs[i] = &spec // a later restart keeps the blocklist
				b := &blk{fps: mw.nodes[j].spec.id.fingerprints(), known: map[*HostInfo]bool{}}
				for _, h := range sortedHostInfos(ni.f.hostMap) {
					b.known[h] = true
				}
				if blocked[i] == nil {
					blocked[i] = map[int]*blk{}
				}
				blocked[i][j] = b
				rc.Count("probe.blocklist_during_handshake", 1)
			})
		}
		prev := mw.afterEvent
		mw.afterEvent = func(name string) {
			if prev != nil {
				prev(name)
			}
			for i, m := range blocked {
				if i >= len(mw.nodes) || !mw.nodes[i].alive {
					continue
				}
				for _, h := range sortedHostInfos(mw.nodes[i].f.hostMap) {
					if h.ConnectionState == nil || h.ConnectionState.peerCert == nil {
						continue
					}
					for j, b := range m {
						if !b.known[h] && slices.Contains(b.fps, h.ConnectionState.peerCert.Fingerprint) {
							rc.Fail("blocklisted-peer-accepted", "node %d after %s: tunnel %d to node %d (%v) was installed after a reload had blocklisted that node's certificate (pool says blocklisted=%v, configured list %v, initiator=%v)", i, name, h.localIndexId, j, h.vpnAddrs,
								mw.nodes[i].f.pki.GetCAPool().IsBlocklisted(h.ConnectionState.peerCert.Fingerprint), mw.nodes[i].c.GetStringSlice("pki.blocklist", nil), h.ConnectionState.initiator)
							return
						}
					}
				}
			}
		}
	}
	mw.runUntil(horizon)
	rc.Count("probe.session_ground_truth_checks", int64(or.crossOK))
	if wrongResponder {
		rc.Count("probe.wrong_responder_configured", 1)
	}
	rc.TraceQuiet(fmt.Sprintf("wr=%v cl=%v x=%d", wrongResponder, claimer, bucket(int64(or.crossOK))))
	if or.crossOK > 0 && (wrongResponder || claimer) {
		rc.Nontrivial()
	}
	rc.Sample(map[string]any{"nodes": len(mw.nodes), "wrong_responder": wrongResponder, "address_claimer": claimer, "lighthouse": mw.useLH, "relay": mw.useRelay,
		"ground_truth_session_checks": or.crossOK, "events": mw.steps, "horizon": horizon.String()})
}

package nebula

// C30 — tunnel teardown decisions follow the liveness policy. Engine A world:
// one node V with 1-3 peers (primary and non-primary tunnels), real
// connection-manager checks on the simulated clock. The tape drives per-tick
// inbound/outbound traffic, clock advances including stalls, certificate expiry
// reached by the clock, blocklisting / CA removal / own-certificate change by
// reload, counters preset around the rekey threshold and the ceiling, and the
// disconnect_invalid / drop_inactive / inactivity_timeout toggles by reload.
// Every traffic check is wrapped: the inputs the statement talks about are
// gathered from the harness's own observation (authenticated inbound seen by
// watching the replay window, outbound seen on the wire, trust state and
// configuration as the harness set them), then the effects are compared.

import (
	"fmt"
	"net/netip"
	"time"

	"github.com/slackhq/nebula/cert"
	"github.com/slackhq/nebula/header"
	sk "github.com/slackhq/nebula/internal/verifsimkit"
)

func init() {
	sk.Register("C30.policy", sk.Scenario{Run: runC30})
}

type c30Tunnel struct {
	created    time.Duration
	lastActive time.Duration // last check at which inbound or outbound traffic had been seen, else creation
	sawIn      bool          // authenticated inbound since the last check (harness observation)
	sawOut     bool
	winDigest  string
	probed     bool // the previous check sent a test probe
	marked     bool // the previous check found no inbound traffic and marked the tunnel
	checks     int
}

func runC30(rc *sk.RunCtx) {
	tp := rc.Tape
	sw := newSimWorld(rc)
	defer sw.stopAll()
	sw.faults.baseLatency = time.Duration(1+tp.Choose(5)) * time.Millisecond
	if tp.Chance(1, 2) {
		sw.faults.drop = 20 + tp.Choose(200)
	}
	now := time.Now()
	cas := []*simCA{
		newSimCA(cert.Version2, cert.Curve_CURVE25519, "ca-one", now.Add(-2*time.Hour), now.Add(20000*time.Hour), nil, nil, nil),
		newSimCA(cert.Version2, cert.Curve_CURVE25519, "ca-two", now.Add(-2*time.Hour), now.Add(20000*time.Hour), nil, nil, nil),
	}
	alive := 1 + tp.Choose(4)
	pendDel := 1 + tp.Choose(5)
	inactivity := time.Duration(4+tp.Choose(40)) * time.Second
	dropInactive := tp.Chance(1, 2)
	disconnectInvalid := tp.Chance(2, 3)
	caInPool := []bool{true, true}
	blocklist := map[string]bool{}

	vNets := []netip.Prefix{netip.MustParsePrefix("10.128.0.1/24")}
	nb, na := now.Add(-time.Hour), now.Add(10000*time.Hour)
	vid := newSimIdentity(cas[0], []cert.Version{cert.Version2}, "victim", nb, na, vNets, nil, nil)
	vid.trust = cas
	vspec := &nodeSpec{name: "victim", nets: vNets, udp: underlayAddr(0, 0), id: vid, static: map[string][]string{}}
	cfg := func() map[string]any {
		var bl []any
		for fp := range blocklist {
			bl = append(bl, fp)
		}
		// deterministic order
		for i := range bl {
			for j := i + 1; j < len(bl); j++ {
				if bl[j].(string) < bl[i].(string) {
					bl[i], bl[j] = bl[j], bl[i]
				}
			}
		}
		m := map[string]any{
			"timers":  map[string]any{"connection_alive_interval": alive, "pending_deletion_interval": pendDel},
			"tunnels": map[string]any{"drop_inactive": dropInactive, "inactivity_timeout": inactivity.String()},
			"pki":     map[string]any{"disconnect_invalid": disconnectInvalid},
			"punchy":  map[string]any{"punch": false, "respond": false},
		}
		if len(bl) > 0 {
			m["pki"].(map[string]any)["blocklist"] = bl
		}
		return m
	}
	setTrust := func() {
		vid.trust = nil
		for i, c := range cas {
			if caInPool[i] {
				vid.trust = append(vid.trust, c)
			}
		}
	}
	vspec.extra = cfg()
	np := 1 + tp.Choose(3)
	type peerInfo struct {
		node   *simNode
		addr   netip.Addr
		ca     int
		fp     string
		expiry time.Time
	}
	var peers []*peerInfo
	var pspecs []*nodeSpec
	for i := 1; i <= np; i++ {
		ci := tp.Choose(2)
		nets := []netip.Prefix{netip.PrefixFrom(netip.AddrFrom4([4]byte{10, 128, 0, byte(i + 1)}), 24)}
		exp := na
		if tp.Chance(1, 3) {
			exp = now.Add(time.Duration(5+tp.Choose(60)) * time.Second) // expires during the run
		}
		id := newSimIdentity(cas[ci], []cert.Version{cert.Version2}, fmt.Sprintf("peer%d", i), nb, exp, nets, nil, nil)
		id.trust = cas
		spec := &nodeSpec{name: id.certs[0].Name(), nets: nets, udp: underlayAddr(i, 0), id: id, static: map[string][]string{"10.128.0.1": {underlayAddr(0, 0).String()}},
			extra: map[string]any{"punchy": map[string]any{"punch": false, "respond": false}, "pki": map[string]any{"disconnect_invalid": false}}}
		vspec.static[nets[0].Addr().String()] = []string{underlayAddr(i, 0).String()}
		pspecs = append(pspecs, spec)
		peers = append(peers, &peerInfo{addr: nets[0].Addr(), ca: ci, fp: id.fingerprints()[0], expiry: time.Unix(exp.Unix(), 0)})
	}
	V := sw.addNode(vspec)
	if V == nil {
		return
	}
	for i, s := range pspecs {
		nd := sw.addNode(s)
		if nd == nil {
			return
		}
		peers[i].node = nd
	}
	vFP := vid.fingerprints()[0]
	rc.Trace("C30 peers=%d alive=%d pd=%d inactivity=%v drop_inactive=%v disconnect_invalid=%v loss=%d", np, alive, pendDel, inactivity, dropInactive, disconnectInvalid, bucket(int64(sw.faults.drop)))

	tun := map[*HostInfo]*c30Tunnel{}
	peerOf := func(h *HostInfo) *peerInfo {
		for _, p := range peers {
			if len(h.vpnAddrs) > 0 && h.vpnAddrs[0] == p.addr {
				return p
			}
		}
		return nil
	}
	track := func() {
		for _, h := range sortedHostInfos(V.f.hostMap) {
			if h.ConnectionState == nil {
				continue
			}
			t := tun[h]
			if t == nil {
				t = &c30Tunnel{created: sw.now, lastActive: sw.now, winDigest: bitsDigest(h.ConnectionState.window)}
				tun[h] = t
			}
			if d := bitsDigest(h.ConnectionState.window); d != t.winDigest {
				t.winDigest = d
				t.sawIn = true
			}
		}
	}
	sw.afterEvent = func(string) { track() }
	sw.afterDeliver = func(to *simNode, d *simDatagram) {
		if to == V {
			track()
		}
	}
	sw.onWire = func(from *simNode, d *simDatagram) {
		if from != V {
			return
		}
		var h header.H
		if err := h.Parse(d.data); err != nil || h.Type == header.Handshake || h.Type == header.RecvError {
			return
		}
		if hi := V.f.hostMap.QueryReverseIndex(h.RemoteIndex); hi != nil {
			if t := tun[hi]; t != nil {
				t.sawOut = true
			}
		}
	}
	stats := map[string]int{}
	sw.onTrafficCheck = func(n *simNode, li uint32, tnow time.Time, run func()) {
		if n != V {
			run()
			return
		}
		track()
		h := V.f.hostMap.QueryIndex(li)
		if h == nil || h.ConnectionState == nil || peerOf(h) == nil {
			run()
			return
		}
		p := peerOf(h)
		t := tun[h]
		if t == nil {
			run()
			return
		}
		t.checks++
		// inputs, from the harness's own knowledge
		status := "ok"
		switch {
		case blocklist[p.fp]:
			status = "blocklisted"
		case !caInPool[p.ca] || tnow.After(p.expiry):
			status = "invalid"
		}
		ctr := h.ConnectionState.messageCounter.Load()
		exhausted := ctr >= RejectAfterMessages
		primary := V.f.hostMap.QueryVpnAddr(p.addr) == h
		in, out := t.sawIn, t.sawOut
		idle := sw.now - t.lastActive
		myFP, _ := h.ConnectionState.myCert.Fingerprint()
		certChanged := myFP != vFP
		rekey := ctr >= RehandshakeAfterMessages
		pendingBefore := V.f.handshakeManager.QueryVpnAddr(p.addr) != nil
		nOut := len(V.conn.out)
		wasProbed := t.probed

		run()

		removed := V.f.hostMap.QueryIndex(li) != h
		closeSent, probeSent := false, false
		for _, d := range V.conn.out[nOut:] {
			var hh header.H
			if err := hh.Parse(d.data); err == nil && hh.RemoteIndex == h.remoteIndexId {
				if hh.Type == header.CloseTunnel {
					closeSent = true
				}
				if hh.Type == header.Test && hh.Subtype == header.TestRequest {
					probeSent = true
				}
			}
		}
		hsStarted := !pendingBefore && V.f.handshakeManager.QueryVpnAddr(p.addr) != nil
		desc := fmt.Sprintf("t=%v check #%d of tunnel %d to %v (primary=%v cert=%s in=%v out=%v probed=%v idle=%v counter=%d): removed=%v close=%v probe=%v handshake=%v [drop_inactive=%v inactivity=%v disconnect_invalid=%v]",
			sw.now, t.checks, li, p.addr, primary, status, in, out, wasProbed, idle, ctr, removed, closeSent, probeSent, hsStarted, dropInactive, inactivity, disconnectInvalid)
		rc.Logf("%s", desc)
		stats["probe.checks"]++
		// the decision table, in the statement's order
		switch {
		case status == "blocklisted":
			stats["probe.blocklisted_checked"]++
			if !removed {
				rc.Fail("blocklisted-kept", "%s: the peer certificate is blocklisted but the tunnel was kept", desc)
			}
		case status == "invalid" && disconnectInvalid:
			stats["probe.invalid_checked"]++
			if !removed {
				rc.Fail("invalid-kept", "%s: the peer certificate is no longer valid and disconnect_invalid is on, but the tunnel was kept", desc)
			}
		case exhausted:
			stats["probe.exhausted_checked"]++
			if !removed {
				rc.Fail("exhausted-kept", "%s: the message counter is exhausted but the tunnel was kept", desc)
			}
		case in:
			stats["probe.alive_checked"]++
			if removed {
				rc.Fail("alive-removed", "%s: the tunnel received authenticated traffic since the last check and was removed", desc)
			}
			if primary && (certChanged || rekey) && !pendingBefore && !hsStarted && !removed {
				rc.Fail("rehandshake-missing", "%s: alive primary tunnel with a rehandshake reason (local cert changed=%v, counter past rekey threshold=%v) but no handshake was started", desc, certChanged, rekey)
			}
		case wasProbed:
			stats["probe.dead_checked"]++
			if !removed {
				rc.Fail("dead-kept", "%s: a test probe was outstanding and no inbound traffic arrived, but the tunnel was kept", desc)
			}
		default:
			if removed {
				// remaining legitimate reasons: a second traffic-less check of a tunnel already marked
				// (non-primary tunnels are marked without a probe), or an idle primary with drop_inactive
				ok := t.marked || primary && !out && dropInactive && idle >= inactivity
				stats["probe.idle_closed"]++
				if !ok {
					rc.Fail("removed-without-reason", "%s: removed although it is not blocklisted/invalid/exhausted, no probe was outstanding, and the inactivity rule does not apply (primary=%v outbound=%v drop_inactive=%v idle=%v timeout=%v)", desc, primary, out, dropInactive, idle, inactivity)
				}
			}
		}
		if hsStarted && !(certChanged || rekey) && !rc.Failed() {
			rc.Fail("rehandshake-without-reason", "%s: a handshake was started by the check although the local certificate is unchanged and the counter is below the rekey threshold", desc)
		}
		if hsStarted {
			stats["probe.rehandshake_started"]++
		}
		// model update for the next check
		if in || out {
			t.lastActive = sw.now
		}
		t.probed = !removed && !in && probeSent
		t.marked = !removed && !in && h.pendingDeletion.Load()
		t.sawIn, t.sawOut = false, false
		if removed {
			delete(tun, h)
		}
	}

	// establish tunnels
	for _, p := range peers {
		V.f.handshakeManager.StartHandshake(p.addr, nil)
	}
	sw.runUntil(1500 * time.Millisecond)
	track()
	horizon := time.Duration(40+tp.Choose(120)) * time.Second
	if rc.Thorough() {
		horizon = time.Duration(100+tp.Choose(500)) * time.Second
	}
	reloadV := func() {
		setTrust()
		vspec.extra = cfg()
		if err := V.reload(vspec.configYAML()); err != nil {
			rc.HarnessError("reload: %v", err)
		}
	}
	nev := 40 + tp.Choose(160)
	if rc.Thorough() {
		nev *= 4
	}
	for k := 0; k < nev; k++ {
		at := 2*time.Second + time.Duration(tp.Choose(int((horizon-2*time.Second)/time.Millisecond)))*time.Millisecond
		kind := tp.Weighted(8, 8, 2, 1, 1, 1, 1, 1, 1, 1, 2)
		pi := tp.Choose(np)
		arg := tp.Choose(1000)
		sw.at(at, fmt.Sprintf("c30-ev%d", kind), func() {
			p := peers[pi]
			switch kind {
			case 0: // outbound traffic burst
				for b := 0; b <= arg%3; b++ {
					V.sendInside(simUDP4(vNets[0].Addr(), p.addr, 1000, 2000, markerPayload(uint64(k)<<8|uint64(b), 0)))
				}
				stats["ev.outbound"]++
			case 1: // inbound traffic burst
				for b := 0; b <= arg%3; b++ {
					p.node.sendInside(simUDP4(p.addr, vNets[0].Addr(), 2000, 1000, markerPayload(uint64(k)<<8|uint64(b)|1<<40, 0)))
				}
				stats["ev.inbound"]++
			case 2: // non-primary tunnels: rehandshake from either side
				if arg%2 == 0 {
					V.f.handshakeManager.StartHandshake(p.addr, nil)
				} else {
					p.node.f.handshakeManager.StartHandshake(vNets[0].Addr(), nil)
				}
				stats["ev.rehandshake"]++
			case 3: // blocklist the peer
				blocklist[p.fp] = true
				reloadV()
				stats["ev.blocklist"]++
			case 4: // drop / restore a CA
				caInPool[1] = !caInPool[1]
				reloadV()
				stats["ev.ca_toggle"]++
			case 5: // own certificate re-issued (same key, same networks)
				vid.issue(cas[0], cert.Version2, "victim", nb, na.Add(time.Duration(arg)*time.Second), vNets, nil, nil)
				vFP = vid.fingerprints()[0]
				reloadV()
				stats["ev.own_cert_changed"]++
			case 6: // toggles
				switch arg % 3 {
				case 0:
					dropInactive = !dropInactive
				case 1:
					disconnectInvalid = !disconnectInvalid
				case 2:
					inactivity = time.Duration(4+arg%40) * time.Second
				}
				reloadV()
				stats["ev.toggle"]++
			case 7: // counter near the rekey threshold
				if h := V.f.hostMap.QueryVpnAddr(p.addr); h != nil && h.ConnectionState.messageCounter.Load() < RehandshakeAfterMessages {
					h.ConnectionState.messageCounter.Store(RehandshakeAfterMessages - uint64(arg%4))
					stats["ev.counter_near_rekey"]++
				}
			case 8: // counter near the ceiling
				if h := V.f.hostMap.QueryVpnAddr(p.addr); h != nil {
					h.ConnectionState.messageCounter.Store(RejectAfterMessages - uint64(arg%3))
					stats["ev.counter_near_ceiling"]++
				}
			case 9: // stall V (its timers are not served, then catch up)
				V.stallEnd = sw.now + time.Duration(1+arg%20)*time.Second
				rc.Count("fault.node_stall", 1)
			case 10: // the peer goes silent for a while (partition)
				d := time.Duration(2+arg%30) * time.Second
				sw.partition[[2]int{0, p.node.idx}] = true
				sw.partition[[2]int{p.node.idx, 0}] = true
				rc.Count("fault.partition", 1)
				pidx := p.node.idx
				sw.after(d, "heal", func() {
					delete(sw.partition, [2]int{0, pidx})
					delete(sw.partition, [2]int{pidx, 0})
				})
			}
		})
	}
	sw.runUntil(horizon)
	for k, v := range stats {
		rc.Count(k, int64(v))
	}
	rc.TraceQuiet(fmt.Sprintf("chk=%d bl=%d inv=%d ex=%d dead=%d idle=%d rh=%d", bucket(int64(stats["probe.checks"])), stats["probe.blocklisted_checked"], stats["probe.invalid_checked"], stats["probe.exhausted_checked"], bucket(int64(stats["probe.dead_checked"])), stats["probe.idle_closed"], stats["probe.rehandshake_started"]))
	if stats["probe.alive_checked"] > 0 && stats["probe.dead_checked"]+stats["probe.idle_closed"]+stats["probe.blocklisted_checked"]+stats["probe.invalid_checked"]+stats["probe.exhausted_checked"] > 0 {
		rc.Nontrivial()
	}
	rc.Sample(map[string]any{"peers": np, "alive_interval_s": alive, "pending_deletion_s": pendDel, "inactivity": inactivity.String(), "horizon": horizon.String(), "outcomes": stats})
}

package nebula

// Scenario family "S-mesh": 2-5 real nodes with static host maps and/or a
// lighthouse, marker-carrying UDP workload, transport faults, and an operator
// (rehandshakes, closes, restarts, stalls, partitions, reloads).

import (
	"fmt"
	"net/netip"
	"time"

	"github.com/slackhq/nebula/cert"
	sk "github.com/slackhq/nebula/internal/verifsimkit"
)

type meshOpts struct {
	minNodes, maxNodes int
	allowLighthouse    bool // node 0 may be a lighthouse that the others discover through
	allowRelay         bool
	multiAddr          bool // some nodes get two overlay networks (v2 certificates)
	allowV1            bool
	allowP256          bool
	horizon            time.Duration
	workload           int // number of application sends
	opRate             int // operator events
	tryInterval        time.Duration
	extra              func(i int, spec *nodeSpec) // per node config tweaks
	noFaults           bool
	forceLH            bool // node 0 is a lighthouse, the others discover each other through it
	v6Overlay          bool // some v2 nodes also get an IPv6 overlay network
	nameFn             func(i int) string // certificate names
	withDNS            bool // nodes build their DNS responder (the socket is never opened)
	forceRelay         bool // node 0 is lighthouse+relay and every endpoint pair lacks a direct path
	secondRelay        bool // the last node is a second relay (not a lighthouse), advertised by the endpoints too
	routines           int  // reader routines per node (0: one)
}

type meshWorld struct {
	*simWorld
	ca       *simCA
	specs    []*nodeSpec
	useLH    bool
	useRelay bool
	// workload bookkeeping
	nextID    uint64
	sent      map[uint64]*sentPkt
	delivered map[uint64]int
	control   []*Control
	opts      meshOpts
	notBefore time.Time
	notAfter  time.Time
}

type sentPkt struct {
	id       uint64
	src, dst int
	srcAddr  netip.Addr
	dstAddr  netip.Addr
	at       time.Duration
	pkt      []byte
}

func overlayAddr(i int, net int) netip.Prefix {
	return netip.PrefixFrom(netip.AddrFrom4([4]byte{10, byte(128 + net), 0, byte(i + 1)}), 24)
}
func underlayAddr(i int, alt int) netip.AddrPort {
	return netip.AddrPortFrom(netip.AddrFrom4([4]byte{byte(1 + alt), 0, 0, byte(i + 1)}), 4242)
}

func buildMesh(rc *sk.RunCtx, o meshOpts) *meshWorld {
	tp := rc.Tape
	w := newSimWorld(rc)
	w.withDNS = o.withDNS
	w.routines = o.routines
	mw := &meshWorld{simWorld: w, sent: map[uint64]*sentPkt{}, delivered: map[uint64]int{}, opts: o}
	n := o.minNodes + tp.Choose(o.maxNodes-o.minNodes+1)
	curve := cert.Curve_CURVE25519
	if o.allowP256 && tp.Chance(1, 4) {
		curve = cert.Curve_P256
	}
	now := time.Now()
	mw.notBefore, mw.notAfter = now.Add(-time.Hour), now.Add(1000*time.Hour)
	mw.ca = newSimCA(cert.Version2, curve, "sim-ca", now.Add(-2*time.Hour), now.Add(2000*time.Hour), nil, nil, nil)
	mw.useLH = o.allowLighthouse && tp.Chance(1, 2)
	if o.forceLH {
		mw.useLH = true
	}
	mw.useRelay = o.allowRelay && n >= 3 && tp.Chance(2, 3)
	if o.forceRelay {
		mw.useRelay = true
	}
	if mw.useRelay {
		mw.useLH = true // relays are learned through the lighthouse; node 0 is lighthouse and relay
	}

	// fault profile (swarm: each kind independently on/off per run)
	if !o.noFaults {
		if tp.Chance(2, 3) {
			w.faults.drop = 10 + tp.Choose(150)
		}
		if tp.Chance(2, 3) {
			w.faults.dup = 10 + tp.Choose(150)
		}
		if tp.Chance(2, 3) {
			w.faults.reorder = 20 + tp.Choose(300)
		}
		if tp.Chance(1, 3) {
			w.faults.longDelay = 5 + tp.Choose(40)
		}
		if tp.Chance(1, 3) {
			w.faults.sendErr = 5 + tp.Choose(30)
		}
	}
	w.faults.baseLatency = time.Duration(1+tp.Choose(20)) * time.Millisecond
	w.faults.jitter = time.Duration(tp.Choose(5000)) * time.Microsecond
	if o.noFaults {
		w.faults.jitter = 0 // constant latency: the network is FIFO
	}

	ti := o.tryInterval
	if ti == 0 {
		ti = 100 * time.Millisecond
	}
	for i := 0; i < n; i++ {
		spec := &nodeSpec{name: fmt.Sprintf("n%d", i), udp: underlayAddr(i, 0)}
		spec.nets = []netip.Prefix{overlayAddr(i, 0)}
		versions := []cert.Version{cert.Version2}
		if o.multiAddr && tp.Chance(1, 2) {
			spec.nets = append(spec.nets, overlayAddr(i, 1))
			if o.allowV1 && tp.Chance(1, 3) {
				// both certificate versions: the v1 certificate carries the first network only and is the one the
				// node initiates with, so peers first see it with one address and later with two
				versions = []cert.Version{cert.Version1, cert.Version2}
			}
		} else if o.allowV1 {
			switch tp.Choose(3) {
			case 1:
				versions = []cert.Version{cert.Version1}
			case 2:
				versions = []cert.Version{cert.Version1, cert.Version2}
			}
		}
		if o.v6Overlay && len(versions) == 1 && versions[0] == cert.Version2 && tp.Chance(1, 2) {
			spec.nets = append(spec.nets, netip.PrefixFrom(netip.AddrFrom16([16]byte{0xfd, 0, 0, 0, 0, 0, 0, 0, 0, 0, 0, 0, 0, 0, 0, byte(i + 1)}), 64))
		}
		certName := spec.name
		if o.nameFn != nil {
			certName = o.nameFn(i)
		}
		spec.id = newSimIdentity(mw.ca, versions, certName, mw.notBefore, mw.notAfter, spec.nets, nil, []string{"g" + fmt.Sprint(i%2)})
		spec.static = map[string][]string{}
		spec.extra = map[string]any{"handshakes": map[string]any{"try_interval": ti.String()}}
		if mw.useLH {
			if i == 0 {
				spec.lighthouse = true
				spec.relay = mw.useRelay
			} else {
				if mw.useRelay {
					spec.relays = []string{overlayAddr(0, 0).Addr().String()}
					if o.secondRelay && i == n-1 {
						spec.relays = nil
						spec.relay = true
					} else if o.secondRelay {
						spec.relays = append(spec.relays, overlayAddr(n-1, 0).Addr().String())
					}
				}
				spec.lhHosts = []string{overlayAddr(0, 0).Addr().String()}
				spec.static[overlayAddr(0, 0).Addr().String()] = []string{underlayAddr(0, 0).String()}
			}
		}
		mw.specs = append(mw.specs, spec)
	}
	if !mw.useLH {
		for i, s := range mw.specs {
			for j := range mw.specs {
				if i != j {
					s.static[overlayAddr(j, 0).Addr().String()] = []string{underlayAddr(j, 0).String()}
				}
			}
		}
	}
	for i, s := range mw.specs {
		if o.extra != nil {
			o.extra(i, s)
		}
		nd := w.addNode(s)
		if nd == nil {
			return mw
		}
		mw.control = append(mw.control, &Control{f: nd.f, l: simLogger})
	}
	if mw.useRelay {
		// topology: some endpoint pairs have no direct underlay path (not a fault: it also holds in the quiet suffix)
		for i := 1; i < n; i++ {
			for j := i + 1; j < n; j++ {
				if o.secondRelay && (i == n-1 || j == n-1) {
					continue // the second relay is directly reachable
				}
				if tp.Chance(2, 3) || o.forceRelay {
					w.blocked[[2]int{i, j}] = true
					w.blocked[[2]int{j, i}] = true
				}
			}
		}
	}
	w.onTun = mw.recordTun
	rc.Trace("mesh n=%d lh=%v relay=%v curve=%v drop=%d dup=%d reorder=%d long=%d senderr=%d", n, mw.useLH, mw.useRelay, curve,
		bucket(int64(w.faults.drop)), bucket(int64(w.faults.dup)), bucket(int64(w.faults.reorder)), bucket(int64(w.faults.longDelay)), bucket(int64(w.faults.sendErr)))
	return mw
}

// recordTun counts deliveries of workload packets per marker id.
func (mw *meshWorld) recordTun(n *simNode, pkt []byte) {
	_, _, _, _, payload, ok := simParseUDP(pkt)
	if !ok {
		return
	}
	if id, ok := parseMarker(payload); ok {
		mw.delivered[id]++
		mw.rc.Count("workload.delivered", 1)
	}
}

// appSend injects one marker packet into src's tun toward dst's overlay address.
func (mw *meshWorld) appSend(src, dst int, dstNet int) *sentPkt {
	s, d := mw.nodes[src], mw.nodes[dst]
	if !s.alive {
		return nil
	}
	da := d.spec.nets[0].Addr()
	if dstNet < len(d.spec.nets) {
		da = d.spec.nets[dstNet].Addr()
	}
	sa := s.spec.nets[0].Addr()
	for _, p := range s.spec.nets {
		if p.Contains(da) {
			sa = p.Addr()
		}
	}
	mw.nextID++
	id := mw.nextID
	pkt := simUDP(sa, da, 1000+uint16(src), 2000+uint16(dst), markerPayload(id, mw.tp.Choose(64)))
	sp := &sentPkt{id: id, src: src, dst: dst, srcAddr: sa, dstAddr: da, at: mw.now, pkt: pkt}
	mw.sent[id] = sp
	mw.rc.Count("workload.sent", 1)
	s.sendInside(pkt)
	return sp
}

// scheduleWorkload spreads application sends over [from, to).
func (mw *meshWorld) scheduleWorkload(count int, from, to time.Duration) {
	n := len(mw.nodes)
	for k := 0; k < count; k++ {
		at := from + time.Duration(mw.tp.Choose(int((to-from)/time.Millisecond)+1))*time.Millisecond
		src := mw.tp.Choose(n)
		dst := (src + 1 + mw.tp.Choose(n-1)) % n
		dn := mw.tp.Choose(2)
		mw.at(at, fmt.Sprintf("app n%d->n%d", src, dst), func() { mw.appSend(src, dst, dn) })
	}
}

// operator events -----------------------------------------------------------

func (mw *meshWorld) opRehandshake(i, j int) {
	n := mw.nodes[i]
	if !n.alive {
		return
	}
	n.f.handshakeManager.StartHandshake(mw.nodes[j].vpnAddr(), nil)
	mw.rc.Count("op.rehandshake", 1)
}

func (mw *meshWorld) opCloseTunnel(i, j int, localOnly bool) {
	n := mw.nodes[i]
	if !n.alive {
		return
	}
	if mw.control[i].CloseTunnel(mw.nodes[j].vpnAddr(), localOnly) {
		mw.rc.Count("op.close_tunnel", 1)
	}
}

func (mw *meshWorld) opRestart(i int, spec *nodeSpec) {
	nn := mw.restart(mw.nodes[i], spec)
	mw.control[i] = &Control{f: nn.f, l: simLogger}
	if spec != nil {
		mw.specs[i] = spec
	}
}

func (mw *meshWorld) opStall(i int, d time.Duration) {
	n := mw.nodes[i]
	if !n.alive {
		return
	}
	if n.stallEnd < mw.now+d {
		n.stallEnd = mw.now + d
	}
	mw.rc.Count("fault.node_stall", 1)
}

func (mw *meshWorld) opPartition(i, j int, d time.Duration) {
	mw.partition[[2]int{i, j}] = true
	mw.partition[[2]int{j, i}] = true
	mw.rc.Count("fault.partition", 1)
	mw.after(d, "heal", func() {
		delete(mw.partition, [2]int{i, j})
		delete(mw.partition, [2]int{j, i})
	})
}

func (mw *meshWorld) opSendErr(i int, k int) {
	if mw.nodes[i].alive {
		mw.nodes[i].conn.failNext += k
	}
}

// scheduleOperator draws count operator/fault events over [from,to).
func (mw *meshWorld) scheduleOperator(count int, from, to time.Duration, kinds []string) {
	n := len(mw.nodes)
	for k := 0; k < count; k++ {
		at := from + time.Duration(mw.tp.Choose(int((to-from)/time.Millisecond)+1))*time.Millisecond
		kind := kinds[mw.tp.Choose(len(kinds))]
		i := mw.tp.Choose(n)
		j := (i + 1 + mw.tp.Choose(n-1)) % n
		arg := mw.tp.Choose(1000)
		mw.at(at, "op "+kind, func() {
			mw.rc.Logf("t=%v op %s n%d n%d arg=%d", mw.now, kind, i, j, arg)
			switch kind {
			case "rehandshake":
				mw.opRehandshake(i, j)
			case "close":
				mw.opCloseTunnel(i, j, false)
			case "close-local":
				mw.opCloseTunnel(i, j, true)
			case "restart":
				mw.opRestart(i, nil)
			case "stall":
				mw.opStall(i, time.Duration(50+arg*5)*time.Millisecond)
			case "partition":
				mw.opPartition(i, j, time.Duration(100+arg*10)*time.Millisecond)
			case "senderr":
				mw.opSendErr(i, 1+arg%4)
			case "tunerr":
				// the tun device refuses the next writes, then traffic towards it follows at once
				if mw.nodes[i].alive {
					mw.nodes[i].tun.failSkip = arg % 3
					mw.nodes[i].tun.failNext += 1 + arg%2
					for b := 0; b < 2+arg%4; b++ {
						mw.appSend(j, i, 0)
					}
				}
			case "burst":
				for b := 0; b < 3+arg%6; b++ {
					mw.appSend(i, j, 0)
				}
			}
		})
	}
}

package nebula

// C29 — local tunnel indexes are unique and never zero. Engine A part: the
// index source is squeezed to a few bits through the crypto/rand.Reader seam
// (zero included) so that the collision and retry branches of allocateIndex,
// CheckAndComplete and AddRelay run constantly, in an S-mesh world with many
// simultaneous handshakes, timeouts, deletions and relays.

import (
	"crypto/rand"
	"fmt"
	"io"
	"time"

	sk "github.com/slackhq/nebula/internal/verifsimkit"
)

func init() {
	sk.Register("C29.mesh", sk.Scenario{Run: runC29})
}

// squeezeReader answers 4-byte reads (the index draws) from a tiny space and
// passes everything else (keys, nonces) through.
type squeezeReader struct {
	inner io.Reader
	mask  byte
	draws int
	zeros int
	// echo: about one draw in three repeats the previous draw's value (decided by another byte of the same seeded
	// stream) — a legal output of a random source, and the one that makes two allocations in flight collide
	echo   bool
	last   byte
	echoes int
}

func (s *squeezeReader) Read(b []byte) (int, error) {
	n, err := s.inner.Read(b)
	if len(b) == 4 && n == 4 {
		v := b[3] & s.mask
		if s.echo && s.draws > 0 && b[2]%3 == 0 {
			v = s.last
			s.echoes++
		}
		s.last = v
		b[0], b[1], b[2], b[3] = 0, 0, 0, v
		s.draws++
		if v == 0 {
			s.zeros++
		}
	}
	return n, err
}

// indexOracle checks the statement after every event.
type indexOracle struct {
	rc *sk.RunCtx
	// previous snapshot per node incarnation
	prevIdx    map[*simNode]map[uint32]*HostInfo
	prevRelay  map[*simNode]map[uint32]*HostInfo
	prevRemote map[*simNode]map[uint32]*HostInfo
	collisions int
}

func newIndexOracle(rc *sk.RunCtx) *indexOracle {
	return &indexOracle{rc: rc, prevIdx: map[*simNode]map[uint32]*HostInfo{}, prevRelay: map[*simNode]map[uint32]*HostInfo{}, prevRemote: map[*simNode]map[uint32]*HostInfo{}}
}

func (o *indexOracle) check(n *simNode, ev string) bool {
	rc := o.rc
	hm := n.f.hostMap
	hs := n.f.handshakeManager
	hm.RLock()
	hs.RLock()
	defer hs.RUnlock()
	defer hm.RUnlock()

	cur := map[uint32]*HostInfo{}
	holders := map[*HostInfo]bool{} // hostinfos that currently hold a tunnel index (pending or established)
	for _, i := range sortedU32(hm.Indexes) {
		h := hm.Indexes[i]
		if i == 0 {
			rc.Fail("zero-index", "node %d after %s: established tunnel with local index 0", n.idx, ev)
			return false
		}
		cur[i] = h
		holders[h] = true
		if h.localIndexId != i {
			rc.Fail("index-mismatch", "node %d after %s: local index %d is registered to a tunnel (%v) whose own local index is %d", n.idx, ev, i, h.vpnAddrs, h.localIndexId)
			return false
		}
	}
	// every tunnel still reachable by address must own its index: two live tunnels never share one
	for _, a := range sortedAddrs(hm.Hosts) {
		for _, h := range hm.unlockedGetHostList(a) {
			if owner := hm.Indexes[h.localIndexId]; owner != h {
				ov := "nobody"
				if owner != nil {
					ov = fmt.Sprint(owner.vpnAddrs, " remote index ", owner.remoteIndexId)
				}
				rc.Fail("index-not-owned", "node %d after %s: the tunnel serving %v (remote index %d) carries local index %d, which is registered to %s", n.idx, ev, a, h.remoteIndexId, h.localIndexId, ov)
				return false
			}
		}
	}
	for _, i := range sortedU32(hs.indexes) {
		hh := hs.indexes[i]
		if i == 0 {
			rc.Fail("zero-index", "node %d after %s: pending tunnel with local index 0", n.idx, ev)
			return false
		}
		if hh.hostinfo.localIndexId != i {
			rc.Fail("pending-index-mismatch", "node %d after %s: pending index %d registered for a handshake whose local index is %d", n.idx, ev, i, hh.hostinfo.localIndexId)
			return false
		}
		if other, ok := cur[i]; ok && other != hh.hostinfo {
			rc.Fail("index-shared", "node %d after %s: local index %d is held by an established tunnel (%v) and a different pending handshake (%v)", n.idx, ev, i, other.vpnAddrs, hh.hostinfo.vpnAddrs)
			return false
		}
		cur[i] = hh.hostinfo
		holders[hh.hostinfo] = true
	}
	// every pending handshake that was given an index holds it: the index is registered, to that handshake
	for _, a := range sortedAddrs(hs.vpnIps) {
		hh := hs.vpnIps[a]
		if hh == nil || hh.hostinfo == nil || hh.hostinfo.localIndexId == 0 {
			continue
		}
		if reg := hs.indexes[hh.hostinfo.localIndexId]; reg != hh {
			who := "nobody"
			if reg != nil {
				who = fmt.Sprint("the handshake for ", reg.hostinfo.vpnAddrs)
			}
			rc.Fail("pending-index-not-owned", "node %d after %s: the pending handshake for %v carries local index %d, which is registered to %s", n.idx, ev, a, hh.hostinfo.localIndexId, who)
			return false
		}
	}
	// one hostinfo must not sit under two different indexes
	byHost := map[*HostInfo]uint32{}
	for _, i := range sortedU32(cur) {
		h := cur[i]
		if j, ok := byHost[h]; ok && j != i {
			rc.Fail("two-indexes", "node %d after %s: one tunnel is registered under local indexes %d and %d", n.idx, ev, j, i)
			return false
		}
		byHost[h] = i
	}
	// relay namespace
	curRelay := map[uint32]*HostInfo{}
	claimed := map[uint32]*HostInfo{}
	for _, h := range sortedHostInfosLocked(hm) {
		for _, ri := range h.relayState.CopyRelayForIdxs() {
			if ri == 0 {
				rc.Fail("zero-relay-index", "node %d after %s: relay with local index 0", n.idx, ev)
				return false
			}
			if prev, ok := claimed[ri]; ok && prev != h && holders[h] && holders[prev] {
				rc.Fail("relay-index-shared", "node %d after %s: relay index %d is owned by two live tunnels (%v and %v)", n.idx, ev, ri, prev.vpnAddrs, h.vpnAddrs)
				return false
			}
			claimed[ri] = h
			// ... and a relay index a live tunnel uses is registered, to that tunnel
			if reg := hm.Relays[ri]; reg != h {
				who := "nobody"
				if reg != nil {
					who = fmt.Sprint("the tunnel to ", reg.vpnAddrs)
				}
				rc.Fail("relay-index-not-registered", "node %d after %s: the tunnel to %v uses relay index %d, which is registered to %s", n.idx, ev, h.vpnAddrs, ri, who)
				return false
			}
		}
	}
	for _, ri := range sortedU32(hm.Relays) {
		if ri == 0 {
			rc.Fail("zero-relay-index", "node %d after %s: Relays holds index 0", n.idx, ev)
			return false
		}
		curRelay[ri] = hm.Relays[ri]
	}
	curRemote := map[uint32]*HostInfo{}
	for _, r := range sortedU32(hm.RemoteIndexes) {
		curRemote[r] = hm.RemoteIndexes[r]
	}

	// release rule: an index that disappeared (or changed owner) since the last
	// event must belong to a tunnel that is gone
	if prev := o.prevIdx[n]; prev != nil {
		for _, i := range sortedU32(prev) {
			h := prev[i]
			if cur[i] == h {
				continue
			}
			if holders[h] {
				rc.Fail("index-released-early", "node %d after %s: local index %d was released/reassigned while its tunnel (%v) is still held (now under index %d)", n.idx, ev, i, h.vpnAddrs, byHost[h])
				return false
			}
		}
	}
	if prev := o.prevRelay[n]; prev != nil {
		for _, i := range sortedU32(prev) {
			h := prev[i]
			if curRelay[i] == h {
				continue
			}
			if holders[h] && hm.Indexes[h.localIndexId] == h {
				if _, still := h.relayState.QueryRelayForByIdx(i); still {
					rc.Fail("relay-index-released-early", "node %d after %s: relay index %d disappeared from the relay map while its owning tunnel (%v) is live and still uses it", n.idx, ev, i, h.vpnAddrs)
					return false
				}
			}
		}
	}
	if prev := o.prevRemote[n]; prev != nil {
		for _, r := range sortedU32(prev) {
			h := prev[r]
			now, ok := curRemote[r]
			if ok && now == h {
				continue
			}
			if !ok && hm.Indexes[h.localIndexId] == h {
				rc.Fail("remote-index-removed", "node %d after %s: remote index %d entry was removed while the tunnel it pointed to (%v, local %d) is still live", n.idx, ev, r, h.vpnAddrs, h.localIndexId)
				return false
			}
		}
	}
	o.prevIdx[n], o.prevRelay[n], o.prevRemote[n] = cur, curRelay, curRemote
	return true
}

// sortedHostInfosLocked is sortedHostInfos for callers that already hold the lock.
func sortedHostInfosLocked(hm *HostMap) []*HostInfo {
	var out []*HostInfo
	for _, i := range sortedU32(hm.Indexes) {
		out = append(out, hm.Indexes[i])
	}
	return out
}

func runC29(rc *sk.RunCtx) {
	tp := rc.Tape
	bits := 3 + tp.Choose(4) // 3..6 bits
	sq := &squeezeReader{inner: rand.Reader, mask: byte(1<<bits - 1)}
	saved := rand.Reader
	rand.Reader = sq
	defer func() { rand.Reader = saved }()

	horizon := time.Duration(15+tp.Choose(30)) * time.Second
	if rc.Thorough() {
		horizon = time.Duration(30+tp.Choose(120)) * time.Second
	}
	mw := buildMesh(rc, meshOpts{minNodes: 3, maxNodes: 5, allowLighthouse: true, allowRelay: true, horizon: horizon})
	if rc.Failed() {
		return
	}
	defer mw.stopAll()
	or := newIndexOracle(rc)
	mw.afterEvent = func(name string) {
		for _, n := range mw.nodes {
			if n.alive && !or.check(n, name) {
				return
			}
		}
	}
	nw := 40 + tp.Choose(80)
	nops := 20 + tp.Choose(60)
	if rc.Thorough() {
		nw, nops = nw*3, nops*3
	}
	mw.scheduleWorkload(nw, 0, horizon)
	mw.scheduleOperator(nops, 500*time.Millisecond, horizon, []string{"rehandshake", "rehandshake", "rehandshake", "close", "close-local", "restart", "stall", "partition", "burst"})
	mw.runUntil(horizon)
	rc.Count("probe.index_draws", int64(sq.draws))
	rc.Count("probe.zero_draws", int64(sq.zeros))
	rc.TraceQuiet(fmt.Sprintf("bits=%d draws=%d", bits, bucket(int64(sq.draws))))
	// with k bits and d draws, collisions are certain once draws exceed the space a few times over
	if sq.draws > 3*(1<<bits) && sq.zeros > 0 {
		rc.Nontrivial()
	}
	rc.Sample(map[string]any{"nodes": len(mw.nodes), "index_bits": bits, "index_draws": sq.draws, "zero_draws": sq.zeros,
		"relay_topology": mw.useRelay, "horizon": horizon.String(), "events": mw.steps})
}

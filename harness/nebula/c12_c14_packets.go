package nebula

// C12 (engine A part) — a data packet is delivered at most once: transport
// duplication plus an attacker re-injecting exact copies of every kind of
// captured datagram, directly and through relays, across rehandshakes.
//
// C14 — unauthenticated packets have no effect: the attacker delivers forged
// variants (bit flips, truncation/extension, header/counter/index/type
// substitution, cross-tunnel splices) of captured encrypted datagrams from the
// peer's real address and from foreign addresses; the receiver's observable
// state must not change and nothing may be delivered or sent.

import (
	"crypto/sha256"
	"fmt"
	"net/netip"
	"time"

	"github.com/slackhq/nebula/header"
	sk "github.com/slackhq/nebula/internal/verifsimkit"
)

func init() {
	sk.Register("C12.mesh", sk.Scenario{Run: runC12Mesh})
	sk.Register("C14.mesh", sk.Scenario{Run: runC14})
}

type effectKey struct {
	node *simNode
	sum  [32]byte
}

func runC12Mesh(rc *sk.RunCtx) {
	tp := rc.Tape
	horizon := time.Duration(10+tp.Choose(25)) * time.Second
	if rc.Thorough() {
		horizon = time.Duration(20+tp.Choose(100)) * time.Second
	}
	mw := buildMesh(rc, meshOpts{minNodes: 2, maxNodes: 4, allowLighthouse: true, allowRelay: true, allowV1: true, horizon: horizon})
	if rc.Failed() {
		return
	}
	defer mw.stopAll()
	// make duplication likely in this family
	if mw.faults.dup < 100 {
		mw.faults.dup = 100 + tp.Choose(200)
	}
	att := newAttacker(mw.simWorld)
	mw.batchRx = tp.Chance(1, 2)
	effects := map[effectKey]int{}
	replaysAccepted, replays, relayedReplays := 0, 0, 0
	mw.observe = func(ob *observed, d *simDatagram) {
		var h header.H
		if err := h.Parse(d.data); err != nil || h.Type == header.Handshake || h.Type == header.RecvError {
			return
		}
		acted := len(ob.tunOut) > 0 || !onlyRecvErrors(ob.sent) || ob.stateDiff != ""
		if !acted {
			return
		}
		k := effectKey{ob.to, sha256.Sum256(d.data)}
		effects[k]++
		if effects[k] > 1 {
			rc.Fail("acted-twice", "node %d acted %d times on the same %s/%d datagram (index %d counter %d, injected=%v): tun writes=%d, datagrams sent=%d, state change:\n%s",
				ob.to.idx, effects[k], h.TypeName(), h.Subtype, h.RemoteIndex, h.MessageCounter, d.src < 0, len(ob.tunOut), len(ob.sent), ob.stateDiff)
		}
	}
	// workload-level oracle: a marker reaches a tun at most once
	mw.onTun = func(n *simNode, pkt []byte) {
		mw.recordTun(n, pkt)
		if _, _, _, _, payload, ok := simParseUDP(pkt); ok {
			if id, ok := parseMarker(payload); ok && mw.delivered[id] > 1 {
				rc.Fail("delivered-twice", "workload packet %d (n%d -> n%d) was written to the destination tun %d times", id, mw.sent[id].src, mw.sent[id].dst, mw.delivered[id])
			}
		}
	}
	nw := 60 + tp.Choose(120)
	nops := 6 + tp.Choose(20)
	nrep := 40 + tp.Choose(160)
	if rc.Thorough() {
		nw, nops, nrep = nw*3, nops*3, nrep*3
	}
	mw.scheduleWorkload(nw, 0, horizon)
	mw.scheduleOperator(nops, time.Second, horizon, []string{"rehandshake", "rehandshake", "burst", "burst", "stall", "close", "tunerr"})
	for k := 0; k < nrep; k++ {
		at := 500*time.Millisecond + time.Duration(tp.Choose(int(horizon/time.Millisecond)))*time.Millisecond
		mw.at(at, "attacker-replay", func() {
			enc := att.encrypted()
			if len(enc) == 0 {
				return
			}
			// bias towards recent captures (still inside the replay window) but reach back too
			var c *captured
			if tp.Chance(2, 3) {
				back := 1 + tp.Choose(minInt(len(enc), 30))
				c = enc[len(enc)-back]
			} else {
				c = enc[tp.Choose(len(enc))]
			}
			from := c.d.from
			if tp.Chance(1, 5) {
				from = netip.MustParseAddrPort(foreignUnderlay)
			}
			copies := 1 + tp.Choose(3)
			for i := 0; i < copies; i++ {
				mw.inject(&simDatagram{from: from, to: c.d.to, data: append([]byte(nil), c.d.data...)}, time.Duration(tp.Choose(30))*time.Millisecond)
			}
			replays += copies
			if c.h.Type == header.Message && c.h.Subtype == header.MessageRelay {
				relayedReplays += copies
			}
			rc.Count("fault.attacker_replay", int64(copies))
		})
	}
	mw.runUntil(horizon)
	_ = replaysAccepted
	dupDelivered := 0
	for _, v := range effects {
		if v >= 1 {
			dupDelivered++
		}
	}
	rc.Count("probe.datagrams_acted_on", int64(dupDelivered))
	rc.Count("probe.relayed_replays", int64(relayedReplays))
	rc.TraceQuiet(fmt.Sprintf("rep=%d rel=%d acted=%d", bucket(int64(replays)), bucket(int64(relayedReplays)), bucket(int64(dupDelivered))))
	if replays > 0 && dupDelivered > 10 && len(mw.delivered) > 5 {
		rc.Nontrivial()
	}
	rc.Sample(map[string]any{"nodes": len(mw.nodes), "relay": mw.useRelay, "lighthouse": mw.useLH, "replays_injected": replays, "relayed_replays": relayedReplays,
		"datagrams_acted_on_once": dupDelivered, "workload_delivered": len(mw.delivered), "events": mw.steps})
}

func runC14(rc *sk.RunCtx) {
	tp := rc.Tape
	horizon := time.Duration(10+tp.Choose(25)) * time.Second
	if rc.Thorough() {
		horizon = time.Duration(20+tp.Choose(100)) * time.Second
	}
	mw := buildMesh(rc, meshOpts{minNodes: 2, maxNodes: 4, allowLighthouse: true, allowRelay: true, allowV1: true, horizon: horizon})
	if rc.Failed() {
		return
	}
	defer mw.stopAll()
	att := newAttacker(mw.simWorld)
	forged, byKind := 0, map[string]int{}
	nw := 60 + tp.Choose(100)
	nops := 4 + tp.Choose(12)
	nforge := 60 + tp.Choose(200)
	if rc.Thorough() {
		nw, nops, nforge = nw*3, nops*3, nforge*3
	}
	mw.scheduleWorkload(nw, 0, horizon)
	mw.scheduleOperator(nops, time.Second, horizon, []string{"rehandshake", "burst", "close", "stall"})
	for k := 0; k < nforge; k++ {
		at := 500*time.Millisecond + time.Duration(tp.Choose(int(horizon/time.Millisecond)))*time.Millisecond
		mw.at(at, "attacker-forge", func() {
			enc := att.encrypted()
			if len(enc) == 0 {
				return
			}
			var c *captured
			if tp.Chance(2, 3) {
				c = enc[len(enc)-1-tp.Choose(minInt(len(enc), 20))]
			} else {
				c = enc[tp.Choose(len(enc))]
			}
			data, kind := att.mutate(c)
			var fh header.H
			if err := fh.Parse(data); err == nil && (fh.Type == header.Handshake || fh.Type == header.RecvError) {
				// Rewritten into one of the two message types that are unauthenticated by
				// design: outside the property (it is about encrypted packets).
				rc.Count("probe.forgery_became_plaintext_type", 1)
				return
			}
			from := c.d.from
			src := "peer-address"
			if tp.Chance(1, 3) {
				from = netip.MustParseAddrPort(foreignUnderlay)
				src = "foreign-address"
			}
			ob := mw.deliverObserved(&simDatagram{from: from, to: c.d.to, data: data, src: -1})
			if ob == nil {
				return
			}
			forged++
			byKind[kind]++
			rc.Count("fault.forged."+kind, 1)
			if len(ob.tunOut) > 0 {
				rc.Fail("forged-delivered", "node %d wrote %d packet(s) to its tun for a forged datagram (%s from %s, original %s/%d idx=%d ctr=%d)", ob.to.idx, len(ob.tunOut), kind, src, c.h.TypeName(), c.h.Subtype, c.h.RemoteIndex, c.h.MessageCounter)
				return
			}
			if !onlyRecvErrors(ob.sent) {
				rc.Fail("forged-answered", "node %d sent %d datagram(s) in reaction to a forged datagram (%s from %s, original %s/%d)", ob.to.idx, len(ob.sent), kind, src, c.h.TypeName(), c.h.Subtype)
				return
			}
			for _, s := range ob.sent {
				if s.to != from {
					rc.Fail("forged-answered", "node %d sent a recv_error for a forged datagram to %v instead of its source %v", ob.to.idx, s.to, from)
					return
				}
			}
			if ob.stateDiff != "" {
				rc.Fail("forged-changed-state", "node %d changed state on a forged datagram (%s from %s, original %s/%d idx=%d ctr=%d len=%d):\n%s", ob.to.idx, kind, src, c.h.TypeName(), c.h.Subtype, c.h.RemoteIndex, c.h.MessageCounter, len(c.d.data), ob.stateDiff)
				return
			}
		})
	}
	mw.runUntil(horizon)
	rc.Count("probe.forgeries_delivered", int64(forged))
	rc.TraceQuiet(fmt.Sprintf("forged=%d kinds=%d", bucket(int64(forged)), len(byKind)))
	if forged > 20 && len(byKind) >= 5 {
		rc.Nontrivial()
	}
	rc.Sample(map[string]any{"nodes": len(mw.nodes), "relay": mw.useRelay, "lighthouse": mw.useLH, "forgeries": forged, "by_kind": byKind, "events": mw.steps})
}

package nebula

// C11 — the replay window accepts each counter exactly once when in range.
// Engine C: the counter history a window sees is produced by a simulated
// lossy / duplicating / reordering link plus an attacker issuing pre-checks
// and a byzantine authenticated peer jumping the counter; the real Bits is
// stepped in lock-step with a reference model written from the statement.

import (
	"container/heap"
	"fmt"
	"log/slog"
	"math"
	"slices"

	sk "github.com/slackhq/nebula/internal/verifsimkit"
)

var verifDiscardLog = slog.New(slog.DiscardHandler)

type c11Model struct {
	w        uint64
	max      uint64
	accepted map[uint64]struct{}
}

func newC11Model(w uint64) *c11Model {
	return &c11Model{w: w, accepted: map[uint64]struct{}{0: {}}}
}

// accept implements the statement: accepted iff never accepted before and
// (above the highest accepted counter, or within the W counters just below it).
func (m *c11Model) wouldAccept(i uint64) bool {
	if _, dup := m.accepted[i]; dup {
		return false
	}
	if i > m.max {
		return true
	}
	return m.max-i < m.w
}

func (m *c11Model) accept(i uint64) bool {
	if !m.wouldAccept(i) {
		return false
	}
	m.accepted[i] = struct{}{}
	if i > m.max {
		m.max = i
		// forget what fell out of the window (keeps the map small; those can never be accepted again)
		if len(m.accepted) > int(4*m.w)+64 {
			for k := range m.accepted {
				if k <= m.max && m.max-k >= m.w {
					delete(m.accepted, k)
				}
			}
		}
	}
	return true
}

type c11Pkt struct {
	at  uint64
	seq uint64
	ctr uint64
}
type c11Heap []c11Pkt

func (h c11Heap) Len() int { return len(h) }
func (h c11Heap) Less(i, j int) bool {
	if h[i].at != h[j].at {
		return h[i].at < h[j].at
	}
	return h[i].seq < h[j].seq
}
func (h c11Heap) Swap(i, j int) { h[i], h[j] = h[j], h[i] }
func (h *c11Heap) Push(x any)   { *h = append(*h, x.(c11Pkt)) }
func (h *c11Heap) Pop() any {
	o := *h
	x := o[len(o)-1]
	*h = o[:len(o)-1]
	return x
}

func init() {
	sk.Register("C11.link", sk.Scenario{NoBubble: true, Run: runC11})
}

func runC11(rc *sk.RunCtx) {
	tp := rc.Tape
	ws := []uint64{8192, 4, 8, 64, 128, 1024}
	w := ws[tp.Choose(len(ws))]
	var start uint64
	region := tp.Choose(7)
	switch region {
	case 0:
		start = 1
	case 1:
		start = w - uint64(tp.Choose(int(min(w, 16))))
		if start == 0 {
			start = 1
		}
	case 2:
		start = uint64(1)<<33 + uint64(tp.Choose(1<<16))
	case 3:
		start = (uint64(tp.Choose(1000))+1)*64*w - uint64(tp.Choose(130))
	case 4:
		start = RejectAfterMessages - uint64(tp.Choose(3*int(w)+8))
	case 5:
		start = math.MaxUint64 - uint64(tp.Choose(3*int(w)+8))
	case 6:
		start = uint64(tp.Choose(1 << 20))
		if start == 0 {
			start = 1
		}
	}
	n := 200 + tp.Choose(1800)
	if rc.Thorough() {
		n = 500 + tp.Choose(20000)
	}
	// fault switches, swarm style
	fDrop := tp.Chance(3, 4)
	fDup := tp.Chance(3, 4)
	fDelay := tp.Chance(3, 4)
	fHold := tp.Chance(1, 2)
	fAttack := tp.Chance(1, 2)
	fJump := tp.Chance(1, 3)
	fBurstLoss := tp.Chance(1, 3)

	b := NewBits(w)
	twin := NewBits(w)
	model := newC11Model(w)
	rc.Trace("C11 w=%d region=%d drop=%v dup=%v delay=%v hold=%v attack=%v jump=%v burst=%v", w, region, fDrop, fDup, fDelay, fHold, fAttack, fJump, fBurstLoss)
	rc.Logf("start=%d packets=%d", start, n)

	h := &c11Heap{}
	var seq uint64
	now := uint64(0)
	next := start
	deliveries := 0
	outcomes := [4]int64{}

	deliver := func(i uint64, how string) bool {
		pre := b.Check(verifDiscardLog, i)
		exp := model.wouldAccept(i)
		if pre != exp {
			rc.Fail("check-mismatch", "w=%d max=%d Check(%d)=%v but the reference says %v (%s)", w, model.max, i, pre, exp, how)
			return false
		}
		// pre-check must not have changed anything: compare with the twin that never saw a Check
		if b.current != twin.current || !slices.Equal(b.bits, twin.bits) {
			rc.Fail("check-mutates", "w=%d Check(%d) changed window state", w, i)
			return false
		}
		got := b.Update(verifDiscardLog, i)
		tgot := twin.Update(verifDiscardLog, i)
		want := model.accept(i)
		if got != want {
			rc.Fail("update-mismatch", "w=%d max(before)=%d Update(%d)=%v but the reference says %v (%s)", w, model.max, i, got, want, how)
			return false
		}
		if got != pre {
			rc.Fail("check-not-predictive", "w=%d Check(%d)=%v then Update=%v", w, i, pre, got)
			return false
		}
		if tgot != got || b.current != twin.current || !slices.Equal(b.bits, twin.bits) {
			rc.Fail("twin-diverged", "w=%d counter %d: instance that pre-checked diverged from the one that did not", w, i)
			return false
		}
		if b.current != model.max {
			rc.Fail("max-mismatch", "w=%d highest accepted is %d, window says %d", w, model.max, b.current)
			return false
		}
		deliveries++
		switch {
		case got && i == model.max:
			outcomes[0]++
		case got:
			outcomes[1]++
		case !got && model.max >= i && model.max-i < w:
			outcomes[2]++
		default:
			outcomes[3]++
		}
		return true
	}

	// full cross-check of the window contents against the model
	crossCheck := func() bool {
		span := w
		if span > 256 {
			span = 256
		}
		for k := uint64(0); k < span; k++ {
			if k > model.max {
				break
			}
			i := model.max - k
			_, acc := model.accepted[i]
			if b.get(i) != acc {
				rc.Fail("window-bit-mismatch", "w=%d max=%d counter %d: bit=%v accepted=%v", w, model.max, i, b.get(i), acc)
				return false
			}
		}
		return true
	}

	for sent := 0; sent < n || h.Len() > 0; {
		// the sender emits one packet per time unit while it has some left
		if sent < n {
			c := next
			next++
			sent++
			if next == 0 {
				sent = n
			}
			copies := 1
			if fDrop && tp.Chance(1, 12) {
				copies = 0
				rc.Count("fault.drop", 1)
			} else if fBurstLoss && tp.Chance(1, 200) {
				burst := uint64(tp.Choose(3 * int(w)))
				if next+burst > next {
					next += burst
				}
				rc.Count("fault.burst_loss", 1)
			}
			if copies > 0 && fDup && tp.Chance(1, 10) {
				copies += 1 + tp.Choose(3)
				rc.Count("fault.duplicate", int64(copies-1))
			}
			for k := 0; k < copies; k++ {
				d := uint64(0)
				if fDelay {
					switch tp.Weighted(10, 4, 2, 1) {
					case 1:
						d = uint64(tp.Choose(int(min(w, 64)))) + 1
						rc.Count("fault.jitter", 1)
					case 2:
						d = w/2 + uint64(tp.Choose(int(w)+2))
						rc.Count("fault.delay_near_window", 1)
					case 3:
						d = w + uint64(tp.Choose(2*int(w)+2))
						rc.Count("fault.delay_beyond_window", 1)
					}
				}
				if fHold && tp.Chance(1, 150) {
					d = 3*w + uint64(tp.Choose(1000))
					rc.Count("fault.long_hold", 1)
				}
				seq++
				heap.Push(h, c11Pkt{at: now + d, seq: seq, ctr: c})
			}
			if fJump && tp.Chance(1, 400) {
				// byzantine but authenticated peer: jump to an arbitrary counter
				var j uint64
				switch tp.Choose(4) {
				case 0:
					j = next + uint64(tp.Choose(4*int(w)))
				case 1:
					j = next + w - 1 + uint64(tp.Choose(3))
				case 2:
					j = next + uint64(tp.Choose(1<<30))<<uint(tp.Choose(30))
				case 3:
					j = math.MaxUint64 - uint64(tp.Choose(2*int(w)+2))
				}
				if j >= next {
					next = j
					rc.Count("fault.peer_jump", 1)
					if next == 0 {
						sent = n
					}
				}
			}
		}
		now++
		for h.Len() > 0 && ((*h)[0].at <= now || sent >= n) {
			p := heap.Pop(h).(c11Pkt)
			if !deliver(p.ctr, "link") {
				return
			}
			if fAttack && tp.Chance(1, 20) {
				// attacker pre-checks / replays arbitrary counters (they reach Check unauthenticated;
				// Update only runs for authentic packets, so the attacker can only replay counters
				// that were really sent: pick among recent ones)
				var a uint64
				switch tp.Choose(5) {
				case 0:
					a = model.max - min(model.max, uint64(tp.Choose(int(2*w)+2)))
				case 1:
					a = model.max - min(model.max, w-1+uint64(tp.Choose(3))) // window edge
				case 2:
					a = 0
				case 3:
					a = model.max
				case 4:
					a = p.ctr
				}
				rc.Count("fault.attacker_replay", 1)
				// pure pre-check of something never sent must not disturb state
				probe := a + uint64(tp.Choose(3))
				pre := b.Check(verifDiscardLog, probe)
				if pre != model.wouldAccept(probe) {
					rc.Fail("check-mismatch", "w=%d max=%d attacker Check(%d)=%v, reference %v", w, model.max, probe, pre, !pre)
					return
				}
				if b.current != twin.current || !slices.Equal(b.bits, twin.bits) {
					rc.Fail("check-mutates", "w=%d attacker Check(%d) changed window state", w, probe)
					return
				}
				if !deliver(a, "replay") {
					return
				}
			}
			if (w <= 128 || deliveries%64 == 0) && !crossCheck() {
				return
			}
		}
	}
	if !crossCheck() {
		return
	}
	rc.Count("deliveries", int64(deliveries))
	rc.Count("outcome.accept_new_max", outcomes[0])
	rc.Count("outcome.accept_in_window", outcomes[1])
	rc.Count("outcome.reject_duplicate", outcomes[2])
	rc.Count("outcome.reject_out_of_window", outcomes[3])
	rc.TraceQuiet(fmt.Sprintf("out=%d/%d/%d/%d", bucket(outcomes[0]), bucket(outcomes[1]), bucket(outcomes[2]), bucket(outcomes[3])))
	if outcomes[1] > 0 && outcomes[2] > 0 && outcomes[3] > 0 {
		rc.Nontrivial()
	}
	rc.Sample(map[string]any{"window": w, "start": fmt.Sprint(start), "packets": n, "deliveries": deliveries,
		"accepted_in_order": outcomes[0], "accepted_in_window": outcomes[1], "rejected_dup": outcomes[2], "rejected_old": outcomes[3]})
}

// bucket maps a count to a coarse logarithmic bucket for abstract trace hashing.
func bucket(n int64) int {
	b := 0
	for n > 0 {
		b++
		n >>= 1
	}
	return b
}

package nebula

// C10 — replayed handshakes do not create or replace tunnels. Engine A: pairs
// holding up to five tunnels per address (forced rehandshakes from both
// sides, local closes), an attacker that stores every first handshake message
// and re-delivers any of them later from its original source address. No
// preferred_ranges are configured, so the documented remote-preference side
// path of the resend branch is not in play.

import (
	"bytes"
	"crypto/sha256"
	"fmt"
	"strings"
	"time"

	"github.com/slackhq/nebula/header"
	sk "github.com/slackhq/nebula/internal/verifsimkit"
)

func init() {
	sk.Register("C10.mesh", sk.Scenario{Run: runC10})
}

// hostmapShape renders only what the statement talks about: which tunnels
// exist and which one is primary for each address.
func hostmapShape(n *simNode) string {
	var sb strings.Builder
	hm := n.f.hostMap
	hm.RLock()
	defer hm.RUnlock()
	for _, i := range sortedU32(hm.Indexes) {
		fmt.Fprintf(&sb, "T%d ", i)
	}
	for _, a := range sortedAddrs(hm.Hosts) {
		fmt.Fprintf(&sb, "| %v:", a)
		for _, h := range hm.unlockedGetHostList(a) {
			fmt.Fprintf(&sb, " %d", h.localIndexId)
		}
	}
	return sb.String()
}

type c10Pre struct {
	shape        string
	matching     *HostInfo // held tunnel created from exactly these stage-1 bytes
	caseB        bool
	primaryIdx   uint32
	primaryTime  uint64
	replayTime   uint64
	cachedStage2 []byte
	inBefore     bool
}

func runC10(rc *sk.RunCtx) {
	tp := rc.Tape
	horizon := time.Duration(15+tp.Choose(30)) * time.Second
	if rc.Thorough() {
		horizon = time.Duration(30+tp.Choose(120)) * time.Second
	}
	mw := buildMesh(rc, meshOpts{minNodes: 2, maxNodes: 3, allowV1: true, allowP256: true, horizon: horizon})
	if rc.Failed() {
		return
	}
	defer mw.stopAll()
	att := newAttacker(mw.simWorld)
	type bodyKey struct {
		node *simNode
		sum  [32]byte
	}
	acceptedTime := map[bodyKey]uint64{} // peer-reported time of a stage-1 body, learned when a tunnel was created from it
	createdFrom := map[bodyKey]*HostInfo{} // the responder tunnel a node created from a stage-1 body
	firstReply := map[bodyKey][]byte{}     // the reply datagram it sent then
	var pre *c10Pre
	caseA, caseB, other := 0, 0, 0

	mw.beforeDeliver = func(to *simNode, d *simDatagram) {
		pre = nil
		var h header.H
		if err := h.Parse(d.data); err != nil || h.Type != header.Handshake || h.MessageCounter != 1 || d.src < 0 && false {
			return
		}
		body := d.data[header.Len:]
		p := &c10Pre{shape: hostmapShape(to)}
		// which held tunnel was created from exactly these bytes: the harness's own record, made when the tunnel
		// appeared (the node's cached copy of the first message is implementation state that may be dropped or
		// rewritten, and used to be what this oracle looked at)
		key := bodyKey{to, sha256.Sum256(body)}
		if hi := createdFrom[key]; hi != nil {
			to.f.hostMap.RLock()
			held := to.f.hostMap.Indexes[hi.localIndexId] == hi
			to.f.hostMap.RUnlock()
			if held {
				p.matching = hi
				p.cachedStage2 = firstReply[key]
				p.inBefore = hi.in.Load()
			}
		}
		// who sent it originally? find the node owning the source underlay address
		if src := mw.nodeByUDP(d.from); src != nil {
			if prim := to.f.hostMap.QueryVpnAddr(src.vpnAddr()); prim != nil && prim.ConnectionState != nil {
				p.primaryIdx, p.primaryTime = prim.localIndexId, prim.lastHandshakeTime
				if rt, ok := acceptedTime[bodyKey{to, sha256.Sum256(body)}]; ok {
					p.replayTime = rt
					p.caseB = !prim.ConnectionState.initiator && prim.lastHandshakeTime >= rt
				}
			}
		}
		pre = p
	}
	mw.observe = func(ob *observed, d *simDatagram) {
		p := pre
		pre = nil
		if p == nil {
			return
		}
		body := d.data[header.Len:]
		post := hostmapShape(ob.to)
		switch {
		case p.matching != nil:
			caseA++
			if post != p.shape {
				rc.Fail("replay-changed-hostmap", "node %d: re-delivered first handshake message of a tunnel it still holds (local %d) changed the hostmap\nbefore: %s\nafter:  %s", ob.to.idx, p.matching.localIndexId, p.shape, post)
				return
			}
			if len(ob.tunOut) != 0 {
				rc.Fail("replay-delivered", "node %d wrote to its tun on a replayed first handshake message", ob.to.idx)
				return
			}
			if !p.inBefore && p.matching.in.Load() {
				rc.Fail("replay-counted-as-traffic", "node %d: a re-delivered first handshake message of tunnel %d marked that tunnel as having received traffic (the next liveness check will treat the replay as proof of life and may promote the tunnel)", ob.to.idx, p.matching.localIndexId)
				return
			}
			for _, s := range ob.sent {
				if !bytes.Equal(s.data, p.cachedStage2) || s.to != d.from {
					var sh header.H
					sh.Parse(s.data)
					rc.Fail("replay-other-output", "node %d answered a replayed first handshake message with something else than its original reply to the source: %s/%d to %v (len %d, original reply len %d)", ob.to.idx, sh.TypeName(), sh.Subtype, s.to, len(s.data), len(p.cachedStage2))
					return
				}
			}
		case p.caseB:
			caseB++
			if post != p.shape {
				rc.Fail("old-handshake-replaced-tunnel", "node %d: first handshake message reporting time %d (existing responder-side primary %d reports %d) changed the hostmap\nbefore: %s\nafter:  %s", ob.to.idx, p.replayTime, p.primaryIdx, p.primaryTime, p.shape, post)
				return
			}
		default:
			other++
		}
		// learn the peer-reported time of bodies that created a tunnel
		for _, hi := range sortedHostInfos(ob.to.f.hostMap) {
			if hi.ConnectionState != nil && !hi.ConnectionState.initiator && bytes.Equal(hi.HandshakePacket[handshakePacketStage0], body) {
				k := bodyKey{ob.to, sha256.Sum256(body)}
				acceptedTime[k] = hi.lastHandshakeTime
				if createdFrom[k] == nil && p.matching == nil {
					// (right after the delivery that created it: the cached first message is still the one just processed)
					createdFrom[k] = hi
					for _, s := range ob.sent {
						var sh header.H
						if sh.Parse(s.data) == nil && sh.Type == header.Handshake && s.to == d.from {
							firstReply[k] = append([]byte(nil), s.data...)
						}
					}
				}
			}
		}
	}
	nw := 30 + tp.Choose(60)
	nops := 15 + tp.Choose(40)
	nrep := 30 + tp.Choose(120)
	if rc.Thorough() {
		nw, nops, nrep = nw*3, nops*3, nrep*3
	}
	mw.scheduleWorkload(nw, 0, horizon)
	mw.scheduleOperator(nops, 500*time.Millisecond, horizon, []string{"rehandshake", "rehandshake", "rehandshake", "close-local", "close", "burst", "partition"})
	for k := 0; k < nrep; k++ {
		at := time.Second + time.Duration(tp.Choose(int(horizon/time.Millisecond)))*time.Millisecond
		mw.at(at, "attacker-replay-stage1", func() {
			if len(att.stage1) == 0 {
				return
			}
			var c *captured
			if tp.Chance(1, 2) {
				c = att.stage1[len(att.stage1)-1-tp.Choose(minInt(len(att.stage1), 6))]
			} else {
				c = att.stage1[tp.Choose(len(att.stage1))]
			}
			rc.Count("fault.attacker_replay_stage1", 1)
			mw.inject(&simDatagram{from: c.d.from, to: c.d.to, data: append([]byte(nil), c.d.data...)}, time.Duration(tp.Choose(20))*time.Millisecond)
		})
	}
	mw.runUntil(horizon)
	rc.Count("probe.replay_of_held_tunnel", int64(caseA))
	rc.Count("probe.older_than_responder_primary", int64(caseB))
	rc.Count("probe.stage1_other", int64(other))
	rc.TraceQuiet(fmt.Sprintf("A=%d B=%d O=%d", bucket(int64(caseA)), bucket(int64(caseB)), bucket(int64(other))))
	if caseA > 0 && caseB > 0 {
		rc.Nontrivial()
	}
	rc.Sample(map[string]any{"nodes": len(mw.nodes), "stage1_replays_of_held_tunnel": caseA, "stage1_older_than_existing_responder_primary": caseB, "stage1_other": other, "events": mw.steps})
}

package nebula

// Engine B scenarios.
//
// C12.gosched — however receive work is interleaved across goroutines, each
// authenticated packet is acted upon at most once: 2-6 goroutines call
// ConnectionState.Decrypt / VerifyRelay on one tunnel with overlapping counter
// sets (the same counter several times, neighbours, window edge, jumps); the
// scheduler chooses every interleaving of the three phases (check / decrypt /
// update).
//
// C13.gosched — nonces are never reused and the ceiling is enforced: 2-8
// goroutines mix data (sendInsideEncrypt), control/test/close (sendNoMetrics)
// and relay (prepareSendVia) sends on one tunnel whose counter is preset
// anywhere, including right below the ceiling; interleaving at "counter
// reserved" / "before encrypt". Every emitted ciphertext is checked against its
// header counter with the peer's key. Run in normal mode and (second scenario)
// with GODEBUG=fips140=on, where the AEAD itself enforces increasing nonces.

import (
	"crypto/fips140"
	"fmt"
	"net/netip"
	"sort"
	"strings"
	"time"

	"github.com/slackhq/nebula/header"
	"github.com/slackhq/nebula/noiseutil"
	sk "github.com/slackhq/nebula/internal/verifsimkit"
)

func init() {
	sk.Register("C12.gosched", sk.Scenario{Run: runC12Gosched})
	sk.Register("C13.gosched", sk.Scenario{Run: runC13Gosched})
	sk.Register("C13.gosched.fips", sk.Scenario{Run: runC13Gosched})
}

// tunnelPair builds two real nodes and one real tunnel between them.
func tunnelPair(rc *sk.RunCtx) (*meshWorld, *HostInfo, *HostInfo) {
	mw := buildMesh(rc, meshOpts{minNodes: 2, maxNodes: 2, noFaults: true})
	if rc.Failed() {
		return nil, nil, nil
	}
	mw.appSend(0, 1, 0)
	mw.runUntil(800 * time.Millisecond)
	ha := mw.nodes[0].f.hostMap.QueryVpnAddr(mw.nodes[1].vpnAddr())
	hb := mw.nodes[1].f.hostMap.QueryVpnAddr(mw.nodes[0].vpnAddr())
	// matched by index only: the decrypt probe of matchedPeerTunnel would seal with a far-away counter,
	// which an increasing-nonce cipher (FIPS mode) remembers
	if ha == nil || hb == nil || hb.localIndexId != ha.remoteIndexId || hb.remoteIndexId != ha.localIndexId {
		rc.HarnessError("tunnel pair was not established")
		mw.stopAll()
		return nil, nil, nil
	}
	return mw, ha, hb
}

type c12Pkt struct {
	ctr   uint64
	relay bool
	data  []byte
}

func runC12Gosched(rc *sk.RunCtx) {
	tp := rc.Tape
	mw, ha, hb := tunnelPair(rc)
	if mw == nil {
		return
	}
	defer mw.stopAll()
	cs := hb.ConnectionState
	base := cs.window.current
	// genuine packets for a set of counters
	nctr := 2 + tp.Choose(7)
	var pkts []c12Pkt
	used := map[uint64]bool{}
	for i := 0; i < nctr; i++ {
		var c uint64
		switch tp.Choose(5) {
		case 0, 1:
			c = base + 1 + uint64(tp.Choose(6))
		case 2:
			c = base + ReplayWindow - 2 + uint64(tp.Choose(5)) // window edge seen from the start
		case 3:
			c = base + ReplayWindow + 100 + uint64(tp.Choose(20)) // a jump: earlier counters fall out of the window
		case 4:
			c = base + 1 + uint64(tp.Choose(64))
		}
		if used[c] {
			continue
		}
		used[c] = true
		relay := tp.Chance(1, 4)
		nb := make([]byte, 12)
		if relay {
			hdr := header.Encode(make([]byte, header.Len, 200), header.Version, header.Message, header.MessageRelay, hb.localIndexId, c)
			hdr = append(hdr, []byte("relayed-inner-packet-bytes")...)
			out, err := ha.ConnectionState.eKey.EncryptDanger(hdr, hdr, nil, c, nb)
			if err != nil {
				rc.HarnessError("encrypt: %v", err)
				return
			}
			pkts = append(pkts, c12Pkt{c, true, out})
		} else {
			hdr := header.Encode(make([]byte, header.Len, 200), header.Version, header.Test, header.TestReply, hb.localIndexId, c)
			out, err := ha.ConnectionState.eKey.EncryptDanger(hdr, hdr, []byte(fmt.Sprintf("payload-%d", c)), c, nb)
			if err != nil {
				rc.HarnessError("encrypt: %v", err)
				return
			}
			pkts = append(pkts, c12Pkt{c, false, out})
		}
	}
	if len(pkts) == 0 {
		return
	}
	success := map[uint64]int{}
	submissions := 0
	s := newGosched(rc)
	ng := 2 + tp.Choose(5)
	for g := 0; g < ng; g++ {
		var list []c12Pkt
		for k, n := 0, 1+tp.Choose(5); k < n; k++ {
			list = append(list, pkts[tp.Choose(len(pkts))])
		}
		submissions += len(list)
		s.spawn(fmt.Sprintf("rx%d", g), func() {
			nb := make([]byte, 12)
			for _, p := range list {
				buf := append([]byte(nil), p.data...)
				var err error
				if p.relay {
					err = cs.VerifyRelay(verifDiscardLog, p.ctr, buf, nb)
				} else {
					_, err = cs.Decrypt(verifDiscardLog, p.ctr, buf, nb)
				}
				if err == nil {
					success[p.ctr]++
					if success[p.ctr] > 1 {
						rc.Fail("accepted-twice", "counter %d (relay=%v) was accepted %d times by concurrent receivers (window base %d)", p.ctr, p.relay, success[p.ctr], base)
						return
					}
				}
			}
		})
	}
	if !s.run() {
		rc.Logf("interleaving: %v", s.trace)
		return
	}
	rc.Logf("interleaving: %v", s.trace)
	// final sequential pass: what was accepted must now be refused; what is still acceptable is accepted exactly once
	nb := make([]byte, 12)
	sort.Slice(pkts, func(i, j int) bool { return pkts[i].ctr < pkts[j].ctr })
	for _, p := range pkts {
		for rep := 0; rep < 2; rep++ {
			buf := append([]byte(nil), p.data...)
			var err error
			if p.relay {
				err = cs.VerifyRelay(verifDiscardLog, p.ctr, buf, nb)
			} else {
				_, err = cs.Decrypt(verifDiscardLog, p.ctr, buf, nb)
			}
			if err == nil {
				success[p.ctr]++
			}
		}
		if success[p.ctr] > 1 {
			rc.Fail("accepted-twice", "counter %d (relay=%v) was accepted %d times in total (window base %d)", p.ctr, p.relay, success[p.ctr], base)
			return
		}
		inWindow := cs.window.current < ReplayWindow || p.ctr > cs.window.current-ReplayWindow
		if success[p.ctr] == 0 && inWindow {
			rc.Fail("never-accepted", "genuine counter %d is inside the window (highest %d) and was never accepted", p.ctr, cs.window.current)
			return
		}
	}
	rc.Count("probe.submissions", int64(submissions))
	rc.Count("probe.scheduler_steps", int64(s.steps))
	if submissions > len(pkts) && s.steps > ng+2 {
		rc.Nontrivial()
	}
	rc.Sample(map[string]any{"receivers": ng, "distinct_counters": len(pkts), "submissions": submissions, "scheduler_steps": s.steps, "interleaving_head": head2(s.trace, 24)})
}

func head2(v []string, n int) []string {
	if len(v) > n {
		return v[:n]
	}
	return v
}

// sealRecorder sits where the data-plane cipher is: it sees every (key, nonce)
// pair the send paths hand to the AEAD, in call order.
type sealRecorder struct {
	inner noiseutil.CipherState
	calls []sealCall
}
type sealCall struct {
	n  uint64
	ok bool
}

func (r *sealRecorder) EncryptDanger(out, ad, plaintext []byte, n uint64, nb []byte) ([]byte, error) {
	o, err := r.inner.EncryptDanger(out, ad, plaintext, n, nb)
	r.calls = append(r.calls, sealCall{n, err == nil})
	return o, err
}
func (r *sealRecorder) DecryptDanger(out, ad, ct []byte, n uint64, nb []byte) ([]byte, error) {
	return r.inner.DecryptDanger(out, ad, ct, n, nb)
}
func (r *sealRecorder) Overhead() int { return r.inner.Overhead() }

func runC13Gosched(rc *sk.RunCtx) {
	tp := rc.Tape
	fipsMode := fips140.Enabled()
	if strings.HasSuffix(rc.Scenario, ".fips") && !fipsMode {
		rc.HarnessError("the .fips scenario needs GODEBUG=fips140=on")
		return
	}
	mw, ha, hb := tunnelPair(rc)
	if mw == nil {
		return
	}
	defer mw.stopAll()
	// (no assumption about how nebula decides to serialise senders in FIPS mode: if it does not, the increasing-nonce
	// AEAD refuses an out-of-order counter and the task's panic is the violation)
	A := mw.nodes[0]
	ci := ha.ConnectionState
	floor := ci.messageCounter.Load() // everything consumed so far (handshake + setup traffic)
	start := floor
	switch tp.Choose(4) {
	case 1:
		start = uint64(1)<<33 + uint64(tp.Choose(1<<20))
	case 2:
		start = RejectAfterMessages - 1 - uint64(tp.Choose(14))
	case 3:
		start = RejectAfterMessages - uint64(tp.Choose(3))
	}
	ci.messageCounter.Store(start)
	mw.pump()
	A.conn.out = nil
	rec := &sealRecorder{inner: ci.eKey}
	ci.eKey = rec
	type emission struct {
		by   string
		data []byte
	}
	var emitted []emission
	relayObj := &Relay{Type: TerminalType, State: Established, LocalIndex: 77, RemoteIndex: hb.localIndexId, PeerAddr: netip.MustParseAddr("10.128.0.9")}
	s := newGosched(rc)
	ng := 2 + tp.Choose(7)
	sends := 0
	for g := 0; g < ng; g++ {
		name := fmt.Sprintf("tx%d", g)
		var kinds []int
		for k, n := 0, 1+tp.Choose(5); k < n; k++ {
			kinds = append(kinds, tp.Weighted(4, 2, 2, 1))
		}
		sends += len(kinds)
		s.spawn(name, func() {
			nb := make([]byte, 12)
			for _, k := range kinds {
				switch k {
				case 0: // data path
					out := A.f.sendInsideEncrypt(ha, ci, []byte("application-segment"), make([]byte, 0, 200), nb)
					if out != nil {
						emitted = append(emitted, emission{name + ":data", append([]byte(nil), out...)})
					}
				case 1: // control / test: lands in the socket
					A.f.sendNoMetrics(header.Test, header.TestRequest, ci, ha, netip.AddrPort{}, []byte("t"), nb, make([]byte, mtu), 0)
				case 2: // relay
					out, err := A.f.prepareSendVia(ha, relayObj, []byte("inner-packet-to-relay"), nb, make([]byte, 0, 200), false)
					if err == nil && out != nil {
						emitted = append(emitted, emission{name + ":relay", append([]byte(nil), out...)})
					}
				case 3: // close: lands in the socket
					A.f.sendNoMetrics(header.CloseTunnel, 0, ci, ha, netip.AddrPort{}, []byte{}, nb, make([]byte, mtu), 0)
				}
			}
		})
	}
	ok := s.run()
	rc.Logf("interleaving: %v", s.trace)
	ci.eKey = rec.inner
	if !ok {
		return
	}
	for _, d := range A.conn.out {
		emitted = append(emitted, emission{"socket", d.data})
	}
	A.conn.out = nil
	// 1. the (key, nonce) pairs the cipher saw
	sealed := map[uint64]bool{}
	var last uint64
	nsealed := 0
	for i, c := range rec.calls {
		if !c.ok {
			continue
		}
		if sealed[c.n] {
			rc.Fail("nonce-reused", "message counter %d was sealed twice under one key (seal call %d; counter was preset to %d)", c.n, i, start)
			return
		}
		sealed[c.n] = true
		if c.n >= RejectAfterMessages {
			rc.Fail("ceiling-exceeded", "an encryption used counter %d, at or beyond the exhaustion ceiling %d", c.n, uint64(RejectAfterMessages))
			return
		}
		if c.n <= floor {
			rc.Fail("counter-not-above-handshake", "an encryption used counter %d, not above the %d counters already consumed by the handshake and setup", c.n, floor)
			return
		}
		if fipsMode && nsealed > 0 && c.n <= last {
			rc.Fail("seal-order", "the increasing-nonce cipher was handed counter %d after %d", c.n, last)
			return
		}
		last = c.n
		nsealed++
	}
	// 2. what left the node: header counter == nonce it was sealed with, no counter twice
	seen := map[uint64]string{}
	nbuf := make([]byte, 12)
	for _, e := range emitted {
		var h header.H
		if err := h.Parse(e.data); err != nil {
			rc.Fail("malformed-emission", "%s emitted a datagram without a header", e.by)
			return
		}
		c := h.MessageCounter
		if prev, dup := seen[c]; dup {
			rc.Fail("nonce-reused", "message counter %d is carried by two emitted datagrams (%s and %s); counter was preset to %d", c, prev, e.by, start)
			return
		}
		seen[c] = e.by
		if !sealed[c] {
			rc.Fail("sealed-with-other-nonce", "%s: emitted header counter %d was never handed to the cipher", e.by, c)
			return
		}
		buf := append([]byte(nil), e.data...)
		var err error
		if h.Type == header.Message && h.Subtype == header.MessageRelay {
			tag := hb.ConnectionState.dKey.Overhead()
			_, err = hb.ConnectionState.dKey.DecryptDanger(nil, buf[:len(buf)-tag], buf[len(buf)-tag:], c, nbuf)
		} else {
			_, err = hb.ConnectionState.dKey.DecryptDanger(nil, buf[:header.Len], buf[header.Len:], c, nbuf)
		}
		if err != nil {
			rc.Fail("sealed-with-other-nonce", "%s: the datagram's header says counter %d but it does not open with that nonce (%v)", e.by, c, err)
			return
		}
	}
	if len(emitted) != nsealed {
		rc.Fail("emission-mismatch", "%d successful encryptions but %d datagrams produced", nsealed, len(emitted))
		return
	}
	rc.Count("probe.sends", int64(sends))
	rc.Count("probe.emitted", int64(len(emitted)))
	rc.Count("probe.scheduler_steps", int64(s.steps))
	if fipsMode {
		rc.Count("probe.fips_mode_runs", 1)
	}
	if start >= RejectAfterMessages-16 {
		rc.Count("probe.started_near_ceiling", 1)
		if len(emitted) < sends {
			rc.Count("probe.sends_refused_at_ceiling", int64(sends-len(emitted)))
		}
	}
	if sends > 2 && s.steps > ng+2 {
		rc.Nontrivial()
	}
	rc.Sample(map[string]any{"senders": ng, "sends": sends, "emitted": len(emitted), "preset_counter": fmt.Sprint(start), "fips": fipsMode, "scheduler_steps": s.steps, "interleaving_head": head2(s.trace, 24)})
}

package nebula

// Engine B — gosched: real goroutines run real nebula operations on one
// tunnel; at every verif hook (verifYield / verifLockPoint, build tag verif)
// the running goroutine parks and the scheduler, drawing from the tape,
// releases exactly one. Exactly one task runs at any time, so an interleaving
// is a list of tape choices: it replays and shrinks. verifLockPoint parks
// before a Lock() until TryLock would succeed, so a task parked while holding a
// lock never makes another block for real; "every runnable task is waiting for
// a lock" is a detected deadlock.

import (
	"fmt"
	"runtime"
	"strings"

	sk "github.com/slackhq/nebula/internal/verifsimkit"
)

type gtask struct {
	id     int
	name   string
	resume chan struct{}
	site   string
	done   bool
	fn     func()
	panic  any
}

type gosched struct {
	rc      *sk.RunCtx
	tasks   []*gtask
	current *gtask
	event   chan *gtask // a task yielded or finished
	steps   int
	trace   []string
	kill    bool
}

func newGosched(rc *sk.RunCtx) *gosched {
	return &gosched{rc: rc, event: make(chan *gtask)}
}

func (s *gosched) spawn(name string, fn func()) {
	t := &gtask{id: len(s.tasks), name: name, resume: make(chan struct{}), fn: fn, site: "start"}
	s.tasks = append(s.tasks, t)
	go func() {
		<-t.resume
		if s.kill {
			t.done = true
			s.event <- t
			return
		}
		defer func() {
			if p := recover(); p != nil {
				t.panic = p
			}
			t.done = true
			s.event <- t
		}()
		t.fn()
	}()
}

// hook is installed as verifYieldHook for the duration of run().
func (s *gosched) hook(site string) {
	t := s.current
	if t == nil {
		return // called from the driver itself (setup code)
	}
	t.site = site
	s.event <- t
	<-t.resume
	if s.kill {
		runtime.Goexit()
	}
}

// run interleaves the spawned tasks until all are done. It returns false on a
// detected deadlock (all remaining tasks spin on lock points).
func (s *gosched) run() bool {
	h := s.hook
	verifYieldHook.Store(&h)
	defer verifYieldHook.Store(nil)
	// per-task lock sets: a task that read-locks (or locks) a mutex it already holds is a deadlock in waiting — a
	// writer queued between the two acquisitions blocks the second one forever (sync.RWMutex documents recursive
	// read locking as prohibited). The lock points never queue a writer, so this hazard would not manifest by itself.
	held := map[*gtask]map[any]int{}
	le := func(op byte, l any) {
		t := s.current
		if t == nil || s.kill {
			return
		}
		switch op {
		case 'L', 'R':
			if held[t] == nil {
				held[t] = map[any]int{}
			}
			if held[t][l] > 0 && !s.rc.Failed() {
				s.rc.Fail("recursive-lock", "task %s acquires (%c) a mutex it already holds, at %s: a writer queued in between deadlocks it", t.name, op, t.site)
			}
			held[t][l]++
		case 'u', 'r':
			if held[t] != nil && held[t][l] > 0 {
				held[t][l]--
			}
		}
	}
	verifLockEventHook.Store(&le)
	defer verifLockEventHook.Store(nil)
	spin := 0
	for {
		var live []*gtask
		for _, t := range s.tasks {
			if !t.done {
				live = append(live, t)
			}
		}
		if len(live) == 0 {
			return true
		}
		// prefer the task that ran last with weight, otherwise uniform: value 0 = keep running the
		// lowest-numbered live task (the benign, sequential schedule)
		t := live[s.rc.Tape.Choose(len(live))]
		s.current = t
		s.steps++
		s.rc.Progress() // no-progress watchdog (scenarios with HangTimeout): a task that blocks for real stops this
		t.resume <- struct{}{}
		ev := <-s.event
		s.current = nil
		if ev != t {
			s.rc.HarnessError("gosched: task %d signalled while task %d was running", ev.id, t.id)
			return false
		}
		if len(s.trace) < 400 {
			s.trace = append(s.trace, fmt.Sprintf("%s@%s", t.name, t.site))
		}
		s.rc.TraceQuiet(fmt.Sprintf("%d@%s", t.id, t.site))
		if t.done || !strings.HasPrefix(t.site, "blocked:") {
			spin = 0
		} else {
			spin++
			if spin > 50*len(live) {
				s.rc.Fail("deadlock", "all %d remaining tasks wait for locks held by parked tasks: %v", len(live), s.sites())
				s.abandon()
				return false
			}
		}
		if s.rc.Failed() {
			s.abandon()
			return false
		}
		if t.panic != nil {
			s.rc.Fail("panic", "task %s panicked: %v", t.name, t.panic)
			s.abandon()
			return false
		}
		if s.steps > 200000 {
			s.rc.HarnessError("gosched: step budget exhausted")
			s.abandon()
			return false
		}
	}
}

func (s *gosched) sites() []string {
	var o []string
	for _, t := range s.tasks {
		if !t.done {
			o = append(o, t.name+"@"+t.site)
		}
	}
	return o
}

// abandon winds the run down on failure paths so that no goroutine stays
// parked in the bubble: the remaining tasks are scheduled round-robin (no tape
// draws) until they finish; if they cannot (a real lock cycle), each is resumed
// with kill set and leaves through runtime.Goexit at its hook.
func (s *gosched) abandon() {
	idle := 0
	for i := 0; ; i++ {
		var live []*gtask
		for _, t := range s.tasks {
			if !t.done {
				live = append(live, t)
			}
		}
		if len(live) == 0 {
			return
		}
		if idle > 50*len(live) || i > 100000 {
			break
		}
		t := live[i%len(live)]
		s.current = t
		t.resume <- struct{}{}
		<-s.event
		s.current = nil
		if t.done || !strings.HasPrefix(t.site, "blocked:") {
			idle = 0
		} else {
			idle++
		}
	}
	s.kill = true
	for _, t := range s.tasks {
		if t.done {
			continue
		}
		s.current = t
		t.resume <- struct{}{}
		<-s.event
		s.current = nil
	}
}

package nebula

// C07.mesh — the node-level half of C07 (anchor "continueHandshake keeps pending
// state on non-fatal errors"). A fault-free pair; A starts a handshake with B,
// the on-path attacker holds B's genuine reply back and first hands A 0..9
// rejected variants of it from B's address (truncations of every class, bit
// flips in header / ephemeral / encrypted payload, an all-zero ephemeral, the
// reply of an OLDER session, garbage of the same length, wrong subtype), with
// retransmissions and small clock steps in between. As long as A's handshake
// machine for that attempt says it is still usable and the attempt has not
// run out of retries, the genuine reply delivered afterwards must complete the
// handshake: A holds a tunnel whose remote index is the one B allocated, and
// the packet queued behind the handshake reaches B's tun exactly once.

import (
	"fmt"
	"time"

	"github.com/slackhq/nebula/handshake"
	"github.com/slackhq/nebula/header"
	sk "github.com/slackhq/nebula/internal/verifsimkit"
)

func init() {
	sk.Register("C07.mesh", sk.Scenario{Run: runC07Mesh})
}

func runC07Mesh(rc *sk.RunCtx) {
	tp := rc.Tape
	mo := meshOpts{minNodes: 2, maxNodes: 2, noFaults: true, allowV1: true, allowP256: true}
	mo.extra = func(i int, spec *nodeSpec) {
		if spec.extra == nil {
			spec.extra = map[string]any{}
		}
		deepMerge(spec.extra, map[string]any{"handshakes": map[string]any{"try_interval": "200ms", "retries": 40}})
	}
	mw := buildMesh(rc, mo)
	if rc.Failed() {
		return
	}
	defer mw.stopAll()
	g := &goNodeWorld{mw: mw, rc: rc}
	A, B := mw.nodes[0], mw.nodes[1]
	var oldReplies [][]byte
	sessions, rejectedTotal, completedAfterRejects := 0, 0, 0

	takeTo := func(to *simNode, typ header.MessageType, counter uint64) *simDatagram {
		for k, d := range g.held {
			var h header.H
			if d.to == to.conn.addr && h.Parse(d.data) == nil && h.Type == typ && (typ != header.Handshake || h.MessageCounter == counter) {
				g.held = append(g.held[:k:k], g.held[k+1:]...)
				return d
			}
		}
		return nil
	}

	nSessions := 1 + tp.Choose(3)
	for s := 0; s < nSessions && !rc.Failed(); s++ {
		// A wants to talk to B: one application packet, queued behind the handshake
		sent := mw.appSend(0, 1, 0)
		g.grab()
		st1 := takeTo(B, header.Handshake, 1)
		if st1 == nil || sent == nil {
			rc.HarnessError("session %d: A produced no first handshake message", s)
			return
		}
		hm := A.f.handshakeManager
		hm.RLock()
		hh := hm.vpnIps[B.vpnAddr()]
		hm.RUnlock()
		if hh == nil || hh.machine == nil {
			rc.HarnessError("session %d: no pending handshake on A", s)
			return
		}
		var m *handshake.Machine = hh.machine
		B.recvBatch([]*simDatagram{st1})
		g.grab()
		gen := takeTo(A, header.Handshake, 2)
		if gen == nil {
			rc.HarnessError("session %d: B did not answer the first handshake message", s)
			return
		}
		g.held = nil // (B's own traffic towards A is not part of this scenario)
		hiB := B.f.hostMap.QueryVpnAddr(A.vpnAddr())
		if hiB == nil || hiB.ConnectionState == nil {
			rc.HarnessError("session %d: B holds no tunnel after answering", s)
			return
		}
		bIdx := hiB.localIndexId
		sessions++

		// ---- the attacker's variants
		nv := tp.Choose(10)
		var kinds []string
		usable := true
		for v := 0; v < nv && !rc.Failed(); v++ {
			b := append([]byte(nil), gen.data...)
			kind := ""
			switch tp.Choose(9) {
			case 0:
				b = b[:tp.Choose(len(b))]
				kind = fmt.Sprintf("truncate-%d", len(b))
			case 1:
				i := header.Len + tp.Choose(len(b)-header.Len)
				b[i] ^= byte(1 << tp.Choose(8))
				kind = "flip-body"
			case 2:
				i := header.Len + tp.Choose(32)
				b[i] ^= byte(1 << tp.Choose(8))
				kind = "flip-ephemeral"
			case 3:
				for i := header.Len; i < header.Len+32 && i < len(b); i++ {
					b[i] = 0
				}
				kind = "zero-ephemeral"
			case 4:
				if len(oldReplies) > 0 {
					b = append([]byte(nil), oldReplies[tp.Choose(len(oldReplies))]...)
					// addressed to the index of THIS attempt (the header is not authenticated)
					copy(b[4:8], gen.data[4:8])
					kind = "older-session-reply"
				} else {
					b[len(b)-1] ^= 1
					kind = "flip-tag"
				}
			case 5:
				tp.Bytes(b[header.Len:])
				kind = "garbage-body"
			case 6:
				b[len(b)-1-tp.Choose(16)] ^= byte(1 << tp.Choose(8))
				kind = "flip-tag"
			case 7:
				b = append(b, byte(tp.Choose(256)))
				kind = "extended"
			case 8:
				b[1] ^= 1 // subtype
				kind = "other-subtype"
			}
			kinds = append(kinds, kind)
			rejectedTotal++
			rc.Count("fault.rejected_variant."+kindClassC07(kind), 1)
			A.recvBatch([]*simDatagram{{from: gen.from, to: gen.to, data: b, src: -1}})
			g.grab()
			if hi := A.f.hostMap.QueryVpnAddr(B.vpnAddr()); hi != nil && hi.ConnectionState != nil {
				rc.Fail("completed-on-forged-message", "session %d: A completed the handshake on a %s variant of B's reply", s, kind)
				return
			}
			if m.Failed() {
				usable = false
			}
			// retransmissions and time, well inside the attempt's lifetime (40 retries)
			if tp.Chance(1, 3) {
				g.advance(time.Duration(50+tp.Choose(400)) * time.Millisecond)
				A.hsTick()
				g.grab()
				if d := takeTo(B, header.Handshake, 1); d != nil && tp.Chance(1, 2) {
					B.recvBatch([]*simDatagram{d}) // B answers a retransmission with its cached reply
					g.grab()
				}
				g.held = nil
			}
		}
		if rc.Failed() {
			return
		}
		hm.RLock()
		stillPending := hm.vpnIps[B.vpnAddr()] == hh
		hm.RUnlock()
		rc.Logf("session %d: %d variants %v; machine usable=%v, attempt still pending=%v", s, nv, kinds, usable, stillPending)

		// ---- the genuine reply
		nt := len(B.tun.out)
		A.recvBatch([]*simDatagram{gen})
		g.grab()
		hi := A.f.hostMap.QueryVpnAddr(B.vpnAddr())
		done := hi != nil && hi.ConnectionState != nil && hi.remoteIndexId == bIdx
		switch {
		case usable && !done:
			rc.Fail("genuine-reply-did-not-complete", "session %d: after %d rejected variants %v the handshake machine still reported itself usable (attempt still pending on the node: %v), yet B's genuine reply did not complete the handshake", s, nv, kinds, stillPending)
			return
		case !usable && done:
			rc.Fail("failed-machine-accepted-input", "session %d: the handshake machine had reported Failed() after variants %v, yet the genuine reply completed the handshake", s, kinds)
			return
		}
		if done {
			if nv > 0 {
				completedAfterRejects++
			}
			// the packet queued behind the handshake: exactly once at B
			for _, d := range g.held {
				if d.to == B.conn.addr {
					B.recvBatch([]*simDatagram{d})
				}
			}
			g.held = nil
			g.grab()
			if n := mw.delivered[sent.id]; n != 1 {
				rc.Fail("queued-packet-not-delivered-once", "session %d: the packet queued behind the handshake reached B's tun %d times after %d rejected variants %v (tun writes since the reply: %d)", s, n, nv, kinds, len(B.tun.out)-nt)
				return
			}
		}
		oldReplies = append(oldReplies, gen.data)
		// next session: both ends drop the tunnel (local closes), a little time passes
		mw.control[0].CloseTunnel(B.vpnAddr(), true)
		mw.control[1].CloseTunnel(A.vpnAddr(), true)
		g.grab()
		g.held = nil
		g.advance(time.Duration(100+tp.Choose(2000)) * time.Millisecond)
		A.hsTick()
		B.hsTick()
		g.grab()
		g.held = nil
	}
	rc.Count("probe.sessions", int64(sessions))
	rc.Count("probe.rejected_variants", int64(rejectedTotal))
	rc.Count("probe.completed_after_rejected_variants", int64(completedAfterRejects))
	rc.TraceQuiet(fmt.Sprintf("s=%d r=%d c=%d", sessions, bucket(int64(rejectedTotal)), completedAfterRejects))
	if completedAfterRejects > 0 {
		rc.Nontrivial()
	}
	rc.Sample(map[string]any{"sessions": sessions, "rejected_variants": rejectedTotal, "completed_after_rejected_variants": completedAfterRejects})
}

func kindClassC07(k string) string {
	for i := 0; i < len(k); i++ {
		if k[i] == '-' && i+1 < len(k) && k[i+1] >= '0' && k[i+1] <= '9' {
			return k[:i]
		}
	}
	return k
}

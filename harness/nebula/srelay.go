package nebula

// Scenario family "S-relay" (engine A): endpoints with no direct underlay path
// reach each other through one or two relays (node 0 is lighthouse and relay;
// optionally the last node is a second relay). Tunnel churn on all legs.
//
// C15 — relays never see or alter end-to-end traffic: workload payloads carry
// unique markers that must never appear on the wire or on a relay's tun; a
// byzantine relay re-sends captured inner packets modified, replayed, or under
// another relay index, properly authenticated with its own tunnel keys; what the
// destination's tun delivers must be byte-identical to what the origin sent and
// carry the origin's address; modified packets must change nothing at the
// destination's end-to-end tunnel.
//
// C39 — relays forward only for the pair they were set up for: a byzantine
// certified endpoint sends CreateRelayRequest/Response with arbitrary
// addresses and indexes (v1 and v2 encodings), duplicates and stale indexes, and
// relayed data on indexes it was never given; am_relay is toggled by reload.
// Every forward a relay performs is checked against the control messages it
// really received (decrypted by the harness with the receiving tunnel's key).

import (
	"bytes"
	"encoding/binary"
	"fmt"
	"net/netip"
	"slices"
	"strings"
	"time"

	"github.com/slackhq/nebula/header"
	sk "github.com/slackhq/nebula/internal/verifsimkit"
)

func init() {
	sk.Register("C15.relay", sk.Scenario{Run: func(rc *sk.RunCtx) { runSRelay(rc, "C15") }})
	sk.Register("C39.relay", sk.Scenario{Run: func(rc *sk.RunCtx) { runSRelay(rc, "C39") }})
}

type relayPair struct{ from, to netip.Addr }

type srelayWorld struct {
	*meshWorld
	focus    string
	relays   map[int]bool // node indexes configured as relay (model of am_relay)
	stats    map[string]int
	inners   []capturedInner
	reqSeen  map[int]map[relayPair]bool // per relay node: authenticated requests (X asked for Y)
	respSeen map[int]map[relayPair]bool // per relay node: authenticated responses (Y answered for X)
	recs     map[*HostInfo]map[uint32]Relay
	// idxNamed: per tunnel, every relay index its peer has named as its own in an authenticated control message
	// over that tunnel (the initiator index of a request, the responder index of a response)
	idxNamed map[*HostInfo]map[uint32]bool
	chasing  bool // a byzantine-chase event is queued
}

// byzantineChase: a certified third peer X (neither p nor q) sends relay R a CreateRelayResponse that names the relay
// index of a record R still holds in state Requested (the relay has asked q on p's behalf and waits for q's answer).
func (w *srelayWorld) byzantineChase(R *simNode, p, q netip.Addr) {
	tp := w.tp
	if !R.alive {
		return
	}
	var xs []*simNode
	for _, n := range w.nodes {
		if n != R && n.alive && !slices.Contains(n.f.myVpnAddrs, p) && !slices.Contains(n.f.myVpnAddrs, q) {
			if hi := n.f.hostMap.QueryVpnAddr(R.vpnAddr()); hi != nil && hi.ConnectionState != nil {
				xs = append(xs, n)
			}
		}
	}
	if len(xs) == 0 {
		return
	}
	X := xs[tp.Choose(len(xs))]
	hi := X.f.hostMap.QueryVpnAddr(R.vpnAddr())
	// records X has nothing to do with: neither kept on R's tunnel to X (there X is the rightful answerer, whatever
	// addresses its message names — nebula resolves by index) nor joining anybody with X
	var idxs []uint32
	for _, h := range sortedHostInfos(R.f.hostMap) {
		mine := false
		for _, a := range h.vpnAddrs {
			if slices.Contains(X.f.myVpnAddrs, a) {
				mine = true
			}
		}
		if mine {
			continue
		}
		for _, r := range h.relayState.CopyAllRelayFor() {
			if r.State == Requested && !slices.Contains(X.f.myVpnAddrs, r.PeerAddr) {
				idxs = append(idxs, r.LocalIndex)
			}
		}
	}
	if len(idxs) == 0 {
		return
	}
	msg := NebulaControl{Type: NebulaControl_CreateRelayResponse, InitiatorRelayIndex: idxs[tp.Choose(len(idxs))], ResponderRelayIndex: uint32(1 + tp.Choose(1<<20)),
		RelayFromAddr: netAddrToProtoAddr(p), RelayToAddr: netAddrToProtoAddr(q)}
	if tp.Chance(1, 3) {
		msg.RelayToAddr = netAddrToProtoAddr(X.vpnAddr())
	}
	b, err := msg.Marshal()
	if err != nil {
		return
	}
	w.rc.Logf("t=%v byzantine chase n%d -> n%d: CreateRelayResponse from=%v to=%v initIdx=%d", w.now, X.idx, R.idx, p, q, msg.InitiatorRelayIndex)
	X.f.SendMessageToHostInfo(header.Control, 0, hi, b, make([]byte, 12), make([]byte, mtu))
	w.stats["fault.byzantine"]++
	w.stats["fault.byzantine.chase-response"]++
}

type capturedInner struct {
	relay  int // relay node index that forwarded it
	dst    int // destination node index
	inner  []byte
	origin int
}

func (w *srelayWorld) fail(prop, class, format string, a ...any) {
	if prop != w.focus {
		w.rc.Count("probe.other_property_oracle_fired."+prop, 1)
		return
	}
	w.rc.Fail(class, format, a...)
}

func (w *srelayWorld) nodeByVpn(a netip.Addr) *simNode {
	for _, n := range w.nodes {
		for _, p := range n.spec.nets {
			if p.Addr() == a {
				return n
			}
		}
	}
	return nil
}

// scanMarkers reports a workload marker found in clear inside b.
func (w *srelayWorld) scanMarkers(b []byte) (uint64, bool) {
	for i := 0; i+16 <= len(b); i++ {
		j := bytes.Index(b[i:], []byte("VRFY"))
		if j < 0 {
			return 0, false
		}
		i += j
		if id, ok := parseMarker(b[i:]); ok {
			if _, sent := w.sent[id]; sent {
				return id, true
			}
		}
	}
	return 0, false
}

func runSRelay(rc *sk.RunCtx, focus string) {
	tp := rc.Tape
	horizon := time.Duration(15+tp.Choose(30)) * time.Second
	if rc.Thorough() {
		horizon = time.Duration(30+tp.Choose(120)) * time.Second
	}
	second := tp.Chance(1, 3)
	minN := 3
	if second {
		minN = 4
	}
	mw := buildMesh(rc, meshOpts{minNodes: minN, maxNodes: 5, allowLighthouse: true, allowRelay: true, forceRelay: true, secondRelay: second, allowV1: focus == "C39", horizon: horizon})
	if rc.Failed() {
		return
	}
	defer mw.stopAll()
	w := &srelayWorld{meshWorld: mw, focus: focus, relays: map[int]bool{0: true}, stats: map[string]int{}, reqSeen: map[int]map[relayPair]bool{}, respSeen: map[int]map[relayPair]bool{}, recs: map[*HostInfo]map[uint32]Relay{}, idxNamed: map[*HostInfo]map[uint32]bool{}}
	n := len(mw.nodes)
	if second {
		w.relays[n-1] = true
	}
	endpoints := []int{}
	for i := 1; i < n; i++ {
		if !(second && i == n-1) {
			endpoints = append(endpoints, i)
		}
	}
	rc.Logf("relays=%v endpoints=%v", w.relays, endpoints)

	// ---- C15 (i): nothing in clear on the wire or on a relay's tun
	mw.onWire = func(from *simNode, d *simDatagram) {
		if id, found := w.scanMarkers(d.data); found {
			w.fail("C15", "plaintext-on-wire", "a datagram from node %d to %v carries workload payload %d (n%d -> n%d) in clear", from.idx, d.to, id, w.sent[id].src, w.sent[id].dst)
		}
		w.captureForward(from, d)
	}
	// ---- C15 (ii): what is delivered is what was sent, attributed to its origin
	mw.onTun = func(nd *simNode, pkt []byte) {
		src, dst, _, _, payload, ok := simParseUDP(pkt)
		if !ok {
			return
		}
		id, ok := parseMarker(payload)
		if !ok {
			return
		}
		sp := w.sent[id]
		if sp == nil {
			w.fail("C15", "unknown-packet-delivered", "node %d delivered a marked packet (id %d) that no application ever sent", nd.idx, id)
			return
		}
		mw.delivered[id]++
		w.stats["workload.delivered"]++
		if w.relays[nd.idx] && nd.idx != sp.dst {
			w.fail("C15", "plaintext-at-relay", "relay node %d wrote workload packet %d (n%d -> n%d) to its own tun", nd.idx, id, sp.src, sp.dst)
			return
		}
		if nd.idx != sp.dst {
			w.fail("C15", "delivered-to-third-party", "workload packet %d (n%d -> n%d) was delivered at node %d", id, sp.src, sp.dst, nd.idx)
			return
		}
		if !bytes.Equal(pkt, sp.pkt) {
			w.fail("C15", "altered-in-transit", "workload packet %d (n%d -> n%d) arrived altered: sent %d bytes %v->%v, delivered %d bytes %v->%v", id, sp.src, sp.dst, len(sp.pkt), sp.srcAddr, sp.dstAddr, len(pkt), src, dst)
			return
		}
		if mw.delivered[id] > 1 {
			w.fail("C15", "delivered-twice", "workload packet %d was delivered %d times", id, mw.delivered[id])
		}
	}
	// ---- C39: observe every delivery at a relay
	mw.beforeDeliver = func(to *simNode, d *simDatagram) { w.recordControl(to, d) }
	mw.observe = func(ob *observed, d *simDatagram) { w.checkForward(ob, d) }
	mw.afterEvent = func(name string) {
		for _, nd := range mw.nodes {
			if nd.alive && !w.checkRelayRecords(nd, name) {
				return
			}
			if nd.alive && focus == "C15" && !w.checkRelayCandidates(nd, name) {
				return
			}
		}
	}

	nw := 60 + tp.Choose(100)
	nops := 6 + tp.Choose(16)
	nbyz := 20 + tp.Choose(60)
	if rc.Thorough() {
		nw, nops, nbyz = nw*3, nops*3, nbyz*3
	}
	// workload between endpoints only
	for k := 0; k < nw; k++ {
		at := time.Duration(tp.Choose(int(horizon/time.Millisecond))) * time.Millisecond
		a := endpoints[tp.Choose(len(endpoints))]
		b := endpoints[tp.Choose(len(endpoints))]
		if a == b {
			b = endpoints[(slices.Index(endpoints, a)+1)%len(endpoints)]
		}
		if a == b {
			continue
		}
		mw.at(at, fmt.Sprintf("app n%d->n%d", a, b), func() { mw.appSend(a, b, 0) })
	}
	mw.scheduleOperator(nops, 2*time.Second, horizon, []string{"rehandshake", "close", "close-local", "restart", "burst", "stall"})
	for k := 0; k < nbyz; k++ {
		at := 3*time.Second + time.Duration(tp.Choose(int((horizon-3*time.Second)/time.Millisecond)))*time.Millisecond
		if focus == "C15" {
			if tp.Chance(1, 3) {
				mw.at(at, "byzantine-relay-claim", func() { w.byzantineRelayClaim(endpoints) })
			} else if tp.Chance(1, 4) {
				mw.at(at, "byzantine-relay-recv-error", func() { w.byzantineRelayRecvError(endpoints) })
			} else {
				mw.at(at, "byzantine-relay", func() { w.byzantineRelay() })
			}
		} else {
			kind := tp.Choose(3)
			mw.at(at, "byzantine-endpoint", func() {
				switch kind {
				case 0, 1:
					w.byzantineControl(endpoints)
				case 2:
					w.toggleAmRelay()
				}
			})
		}
	}
	mw.runUntil(horizon)
	for k, v := range w.stats {
		rc.Count(k, int64(v))
	}
	rc.Count("workload.delivered_distinct", int64(len(mw.delivered)))
	rc.TraceQuiet(fmt.Sprintf("fw=%d byz=%d del=%d", bucket(int64(w.stats["probe.forwards_checked"])), bucket(int64(w.stats["fault.byzantine"])), bucket(int64(len(mw.delivered)))))
	if w.stats["probe.forwards_checked"] > 5 && len(mw.delivered) > 3 {
		rc.Nontrivial()
	}
	rc.Sample(map[string]any{"nodes": n, "second_relay": second, "endpoints": endpoints, "workload_sent": len(mw.sent), "workload_delivered": len(mw.delivered), "outcomes": w.stats, "events": mw.steps})
}

// captureForward remembers the inner packets a relay forwards (for the byzantine relay).
func (w *srelayWorld) captureForward(from *simNode, d *simDatagram) {
	if !w.relays[from.idx] || len(w.inners) > 400 {
		return
	}
	var h header.H
	if err := h.Parse(d.data); err != nil || h.Type != header.Message || h.Subtype != header.MessageRelay || len(d.data) < 2*header.Len+16 {
		return
	}
	dst := w.nodeIndexByUDP(d.to)
	if dst < 0 {
		return
	}
	inner := append([]byte(nil), d.data[header.Len:len(d.data)-16]...)
	var ih header.H
	if err := ih.Parse(inner); err != nil || ih.Type == header.Handshake {
		return
	}
	w.inners = append(w.inners, capturedInner{relay: from.idx, dst: dst, inner: inner})
}

// byzantineRelay: the relay re-sends a captured inner packet, modified or not,
// under the right or another relay index, authenticated with its own keys.
func (w *srelayWorld) byzantineRelay() {
	tp := w.tp
	if len(w.inners) == 0 {
		return
	}
	c := w.inners[len(w.inners)-1-tp.Choose(minInt(len(w.inners), 12))]
	R, B := w.nodes[c.relay], w.nodes[c.dst]
	if !R.alive || !B.alive {
		return
	}
	hiB := R.f.hostMap.QueryVpnAddr(B.vpnAddr())
	if hiB == nil || hiB.ConnectionState == nil || matchedPeerTunnel(hiB, B) == nil {
		return
	}
	rels := hiB.relayState.CopyAllRelayFor()
	if len(rels) == 0 {
		return
	}
	rel := rels[tp.Choose(len(rels))]
	inner := append([]byte(nil), c.inner...)
	kind := "replay-as-is"
	switch tp.Choose(6) {
	case 0:
	case 1:
		i := header.Len + tp.Choose(len(inner)-header.Len)
		inner[i] ^= byte(1 << tp.Choose(8))
		kind = "flip-inner-body"
	case 2:
		i := 4 + tp.Choose(12) // inner index or counter
		inner[i] ^= byte(1 << tp.Choose(8))
		kind = "flip-inner-header"
	case 3:
		if len(inner) > header.Len+1 {
			inner = inner[:header.Len+tp.Choose(len(inner)-header.Len)]
			kind = "truncate-inner"
		}
	case 4:
		// splice: header of this inner, body of another captured inner
		o := w.inners[tp.Choose(len(w.inners))]
		if !bytes.Equal(o.inner, c.inner) && len(o.inner) > header.Len {
			inner = append(append([]byte(nil), inner[:header.Len]...), o.inner[header.Len:]...)
			kind = "splice-inner"
		}
	case 5:
		binary.BigEndian.PutUint64(inner[8:16], binary.BigEndian.Uint64(inner[8:16])+uint64(1+tp.Choose(50)))
		kind = "fresh-inner-counter"
	}
	modified := !bytes.Equal(inner, c.inner)
	// which end-to-end tunnel at B does the inner packet address?
	var ih header.H
	ih.Parse(c.inner)
	target := B.f.hostMap.QueryIndex(ih.RemoteIndex)
	before := ""
	var relaysBefore []netip.Addr
	if target != nil {
		before = tunnelDigest(target)
		relaysBefore = target.relayState.CopyRelayIps()
	}
	nOut := len(R.conn.out)
	R.f.SendVia(hiB, rel, inner, make([]byte, 12), make([]byte, mtu), false, 0)
	sent := append([]*simDatagram(nil), R.conn.out[nOut:]...)
	R.conn.out = R.conn.out[:nOut]
	if len(sent) == 0 {
		return
	}
	w.stats["fault.byzantine"]++
	w.stats["fault.byzantine."+kind]++
	w.pump()
	nt, nc := len(B.tun.out), len(B.conn.out)
	B.recvBatch(sent)
	tunOut := B.tun.out[nt:]
	reply := B.conn.out[nc:]
	if modified {
		for _, p := range tunOut {
			if _, _, _, _, payload, ok := simParseUDP(p); ok {
				if _, ok := parseMarker(payload); ok {
					w.fail("C15", "modified-packet-delivered", "node %d delivered a packet although the relay had modified it (%s)", B.idx, kind)
					return
				}
			}
		}
		if target != nil && B.f.hostMap.QueryIndex(ih.RemoteIndex) == target {
			if after := tunnelDigest(target); after != before {
				w.fail("C15", "modified-packet-changed-state", "node %d: a packet modified by the relay (%s) changed the end-to-end tunnel state\nbefore: %s\nafter:  %s", B.idx, kind, before, after)
				return
			}
		}
		if target != nil {
			// relay candidates may be pruned by the node's own send path (not judged), but a packet nobody
			// authenticated never ADDS one
			for _, r := range target.relayState.CopyRelayIps() {
				if !slices.Contains(relaysBefore, r) {
					w.fail("C15", "modified-packet-changed-state", "node %d: a packet modified by the relay (%s) added %v to the relays of the end-to-end tunnel it names (before: %v)", B.idx, kind, r, relaysBefore)
					return
				}
			}
		}
		if len(reply) > 0 && !onlyRecvErrors(reply) {
			w.fail("C15", "modified-packet-answered", "node %d answered a packet modified by the relay (%s) with %d datagram(s)", B.idx, kind, len(reply))
			return
		}
	}
	// unmodified replays / re-wraps fall under the onTun oracle (identical bytes, once, right destination)
}

// byzantineRelayClaim: a node X that holds a tunnel to endpoint B plays relay and tells B "A wants to reach you
// through me" (CreateRelayRequest from=A to=B) — a claim about A that nothing from A backs. B may set up the relay
// record on ITS tunnel to X (that is what a terminal does for any requester); what B knows about A — A's tunnel,
// the relays B uses towards A — is A's to change (checkRelayCandidates).
func (w *srelayWorld) byzantineRelayClaim(endpoints []int) {
	tp := w.tp
	B := w.nodes[endpoints[tp.Choose(len(endpoints))]]
	X := w.nodes[tp.Choose(len(w.nodes))]
	A := w.nodes[endpoints[tp.Choose(len(endpoints))]]
	if X == B || A == B || !X.alive || !B.alive {
		return
	}
	hi := X.f.hostMap.QueryVpnAddr(B.vpnAddr())
	if hi == nil || hi.ConnectionState == nil {
		return
	}
	from := A.vpnAddr()
	if tp.Chance(1, 6) {
		from = netip.AddrFrom4([4]byte{10, 128, 0, byte(200 + tp.Choose(20))})
	}
	msg := NebulaControl{Type: NebulaControl_CreateRelayRequest, InitiatorRelayIndex: uint32(1 + tp.Choose(1<<20)),
		RelayFromAddr: netAddrToProtoAddr(from), RelayToAddr: netAddrToProtoAddr(B.vpnAddr())}
	b, err := msg.Marshal()
	if err != nil {
		return
	}
	w.rc.Logf("t=%v byzantine relay claim n%d -> n%d: CreateRelayRequest from=%v to=%v", w.now, X.idx, B.idx, from, B.vpnAddr())
	X.f.SendMessageToHostInfo(header.Control, 0, hi, b, make([]byte, 12), make([]byte, mtu))
	w.stats["fault.byzantine"]++
	w.stats["fault.byzantine.relay-claims-peer"]++
}

// byzantineRelayRecvError: a relay X wraps an unauthenticated recv_error into a relay frame for endpoint B, naming
// the index of a tunnel B holds DIRECTLY with a third node T (here: the other relay / the lighthouse). A recv_error
// is honoured only from the underlay address the tunnel talks to; one that arrives inside X's relay frame comes from
// X, whatever index it names, and must not take B's tunnel with T down.
func (w *srelayWorld) byzantineRelayRecvError(endpoints []int) {
	tp := w.tp
	B := w.nodes[endpoints[tp.Choose(len(endpoints))]]
	var xs []*simNode
	for i, nd := range w.nodes {
		if w.relays[i] && nd.alive && nd != B {
			xs = append(xs, nd)
		}
	}
	if !B.alive || len(xs) == 0 {
		return
	}
	X := xs[tp.Choose(len(xs))]
	hiB := X.f.hostMap.QueryVpnAddr(B.vpnAddr())
	if hiB == nil || hiB.ConnectionState == nil || matchedPeerTunnel(hiB, B) == nil {
		return
	}
	rels := hiB.relayState.CopyAllRelayFor()
	if len(rels) == 0 {
		return
	}
	rel := rels[tp.Choose(len(rels))]
	// B's direct tunnels with somebody else than X
	var targets []*HostInfo
	for _, h := range sortedHostInfos(B.f.hostMap) {
		if h.ConnectionState == nil || !h.GetRemote().IsValid() || slices.Contains(X.f.myVpnAddrs, h.vpnAddrs[0]) {
			continue
		}
		targets = append(targets, h)
	}
	if len(targets) == 0 {
		return
	}
	T := targets[tp.Choose(len(targets))]
	inner := header.Encode(make([]byte, header.Len), header.Version, header.RecvError, 0, T.remoteIndexId, 0)
	if tp.Chance(1, 2) {
		inner = append(inner, make([]byte, 16+tp.Choose(32))...) // some implementations pad
	}
	before := tunnelDigest(T)
	nOut := len(X.conn.out)
	X.f.SendVia(hiB, rel, inner, make([]byte, 12), make([]byte, mtu), false, 0)
	sent := append([]*simDatagram(nil), X.conn.out[nOut:]...)
	X.conn.out = X.conn.out[:nOut]
	if len(sent) == 0 {
		return
	}
	w.stats["fault.byzantine"]++
	w.stats["fault.byzantine.relayed-recv-error"]++
	w.pump()
	B.recvBatch(sent)
	if B.f.hostMap.QueryIndex(T.localIndexId) != T {
		w.fail("C15", "relay-carried-recv-error-closed-tunnel", "node %d dropped its direct tunnel %d with %v (remote %v) on a recv_error that arrived inside a relay frame from relay node %d: nothing of it is authenticated, and it did not come from the address the tunnel talks to", B.idx, T.localIndexId, T.vpnAddrs, T.GetRemote(), X.idx)
		return
	}
	if after := tunnelDigest(T); after != before {
		w.fail("C15", "modified-packet-changed-state", "node %d: a recv_error carried by relay node %d changed the state of its direct tunnel with %v\nbefore: %s\nafter:  %s", B.idx, X.idx, T.vpnAddrs, before, after)
	}
}

// checkRelayCandidates: the relays a node keeps for reaching peer A (hostinfo(A).relayState) are written by
// handshakes with A only — a handshake packet that A's key authenticates arrived through that relay. Honest
// handshakes travel through relays that A or the node itself configured (the lighthouse is honest in this family),
// so any other entry was put there on somebody else's word.
func (w *srelayWorld) checkRelayCandidates(nd *simNode, ev string) bool {
	for _, h := range sortedHostInfos(nd.f.hostMap) {
		A := w.nodeByVpn(h.vpnAddrs[0])
		if A == nil {
			continue
		}
		allowed := append(append([]string(nil), nd.spec.relays...), A.spec.relays...)
		for _, r := range h.relayState.CopyRelayIps() {
			w.stats["probe.relay_candidates_checked"]++
			if !slices.Contains(allowed, r.String()) {
				w.fail("C15", "relay-candidate-on-relays-word", "node %d after %s: its tunnel %d to %v lists %v as a relay towards that peer, which neither of the two configured (%v): no handshake of the peer came through it", nd.idx, ev, h.localIndexId, h.vpnAddrs[0], r, allowed)
				return false
			}
		}
	}
	return true
}

// tunnelDigest renders the receive-side state of one tunnel: recorded remote, liveness flag, replay window,
// roaming memory. The list of relay candidates is deliberately not part of it: answering a packet it cannot
// authenticate (recv_error), a node walks its relay candidates on the SEND path and prunes those whose relay
// record is not established at that moment (sendNoMetrics -> DeleteRelay) — housekeeping of the sender that any
// own transmission performs as well, not state the modified packet wrote (thorough-tier false alarm, corrected).
func tunnelDigest(h *HostInfo) string {
	if h.ConnectionState == nil {
		return "nil"
	}
	return fmt.Sprintf("remote=%v in=%v win=%s roam=%v", h.GetRemote(), h.in.Load(), bitsDigest(h.ConnectionState.window), h.lastRoamRemote)
}

// ---------------------------------------------------------------------------
// C39

// recordControl decrypts (with the receiving tunnel's own key, without touching
// its replay window) every Control message about to be delivered to a relay and
// records the authenticated request/response facts.
func (w *srelayWorld) recordControl(to *simNode, d *simDatagram) {
	if !to.alive {
		return
	}
	var h header.H
	if err := h.Parse(d.data); err != nil || h.Type != header.Control {
		return
	}
	hi := to.f.hostMap.QueryIndex(h.RemoteIndex)
	if hi == nil || hi.ConnectionState == nil {
		return
	}
	if !hi.ConnectionState.window.Check(verifDiscardLog, h.MessageCounter) {
		return // a replay: will be refused
	}
	buf := append([]byte(nil), d.data...)
	out, err := hi.ConnectionState.dKey.DecryptDanger(nil, buf[:header.Len], buf[header.Len:], h.MessageCounter, make([]byte, 12))
	if err != nil {
		return
	}
	msg := &NebulaControl{}
	if err := msg.Unmarshal(out); err != nil {
		return
	}
	if w.idxNamed[hi] == nil {
		w.idxNamed[hi] = map[uint32]bool{}
	}
	switch msg.Type {
	case NebulaControl_CreateRelayRequest:
		w.idxNamed[hi][msg.InitiatorRelayIndex] = true
	case NebulaControl_CreateRelayResponse:
		w.idxNamed[hi][msg.ResponderRelayIndex] = true
	}
	var from, target netip.Addr
	if msg.OldRelayFromAddr > 0 || msg.OldRelayToAddr > 0 {
		var b [4]byte
		binary.BigEndian.PutUint32(b[:], msg.OldRelayFromAddr)
		from = netip.AddrFrom4(b)
		binary.BigEndian.PutUint32(b[:], msg.OldRelayToAddr)
		target = netip.AddrFrom4(b)
	} else {
		if msg.RelayFromAddr == nil || msg.RelayToAddr == nil {
			return
		}
		from, target = protoAddrToNetAddr(msg.RelayFromAddr), protoAddrToNetAddr(msg.RelayToAddr)
	}
	sender := hi.vpnAddrs
	switch msg.Type {
	case NebulaControl_CreateRelayRequest:
		// X (authenticated sender) asks this node to relay to target
		if w.reqSeen[to.idx] == nil {
			w.reqSeen[to.idx] = map[relayPair]bool{}
		}
		for _, s := range sender {
			w.reqSeen[to.idx][relayPair{s, target}] = true
		}
		w.stats["probe.control_requests_seen"]++
		// A request whose target is the receiving node itself ("from wants to reach you through me") is handled on
		// the record the receiver keeps for `from` on the sender's tunnel; when that record is the forwarding record
		// of a pair from<->sender that `from` asked for, the sender's own message moves it to Established. The sender
		// is the rightful other end of that pair, so this counts as its consent (the statement's forwarding clauses
		// are about third parties; strict message-type transitions are out of scope, see DESIGN.md 7.7).
		if slices.Contains(to.f.myVpnAddrs, target) {
			if w.respSeen[to.idx] == nil {
				w.respSeen[to.idx] = map[relayPair]bool{}
			}
			for _, s := range sender {
				w.respSeen[to.idx][relayPair{from, s}] = true
			}
		} else if w.focus == "C39" && !w.chasing && w.tp.Chance(1, 3) {
			// a fault placed right after the membership change: while the relay waits for the target's answer, a
			// third certified peer answers in its place, naming the relay index the relay has just allocated
			R, p, q := to, from, target
			w.chasing = true
			w.after(0, "byzantine-chase", func() {
				w.chasing = false
				w.byzantineChase(R, p, q)
			})
		}
	case NebulaControl_CreateRelayResponse:
		// Y (authenticated sender) confirms the relay for from
		if w.respSeen[to.idx] == nil {
			w.respSeen[to.idx] = map[relayPair]bool{}
		}
		for _, s := range sender {
			w.respSeen[to.idx][relayPair{from, s}] = true
		}
		w.stats["probe.control_responses_seen"]++
	}
}

// checkForward judges every delivery at a node that results in a relayed datagram being emitted.
func (w *srelayWorld) checkForward(ob *observed, d *simDatagram) {
	R := ob.to
	var h header.H
	if err := h.Parse(d.data); err != nil || h.Type != header.Message || h.Subtype != header.MessageRelay {
		return
	}
	inner := []byte(nil)
	if len(d.data) >= 2*header.Len+16 {
		inner = d.data[header.Len : len(d.data)-16]
	}
	for _, s := range ob.sent {
		var sh header.H
		if err := sh.Parse(s.data); err != nil || sh.Type != header.Message || sh.Subtype != header.MessageRelay || len(s.data) < 2*header.Len+16 {
			continue
		}
		if inner == nil || !bytes.Equal(s.data[header.Len:len(s.data)-16], inner) {
			continue // not a forward of this packet (e.g. the node's own relayed reply)
		}
		// R forwarded the packet it just received
		w.stats["probe.forwards_checked"]++
		src := R.f.hostMap.QueryRelayIndex(h.RemoteIndex)
		if src == nil {
			w.fail("C39", "forward-from-unknown-index", "node %d forwarded a relayed packet that arrived on relay index %d which belongs to no tunnel", R.idx, h.RemoteIndex)
			return
		}
		if !w.relays[R.idx] {
			w.fail("C39", "forward-while-not-relay", "node %d forwarded relayed traffic from %v although it is not configured as a relay (am_relay=false)", R.idx, src.vpnAddrs)
			return
		}
		dstNode := w.nodeByUDP(s.to)
		if dstNode == nil {
			return
		}
		if dstNode == R {
			w.fail("C39", "forward-to-self", "node %d forwarded relayed traffic to itself", R.idx)
			return
		}
		srcNode := w.nodeByVpn(src.vpnAddrs[0])
		if srcNode != nil && srcNode == dstNode {
			rec, _ := src.relayState.QueryRelayForByIdx(h.RemoteIndex)
			w.rc.Logf("t=%v node %d bounced relayed traffic back to node %d (relay record %+v)", w.now, R.idx, srcNode.idx, rec)
			w.stats["probe.forward_back_to_source"]++
			// A certified peer that asks a relay to relay to itself only gets its own packets back: no second
			// peer is involved, so the pair rule below has nothing to say about it.
			continue
		}
		// negotiated? the source must have asked for the destination (or the destination for the source), and the other side must have answered
		ok := false
		for _, sa := range src.vpnAddrs {
			for _, dp := range dstNode.spec.nets {
				da := dp.Addr()
				if w.reqSeen[R.idx][relayPair{sa, da}] && w.respSeen[R.idx][relayPair{sa, da}] {
					ok = true
				}
				if w.reqSeen[R.idx][relayPair{da, sa}] && w.respSeen[R.idx][relayPair{da, sa}] {
					ok = true
				}
			}
		}
		if !ok {
			w.fail("C39", "forward-without-negotiation", "node %d forwarded relayed traffic from %v to node %d (%v) although it never received both an authenticated CreateRelayRequest and the matching CreateRelayResponse for that pair", R.idx, src.vpnAddrs, dstNode.idx, dstNode.spec.nets)
			return
		}
	}
}

// checkRelayRecords: relay records keep type, local index and peer address;
// every relay index points at a live tunnel that owns it.
func (w *srelayWorld) checkRelayRecords(nd *simNode, ev string) bool {
	hm := nd.f.hostMap
	// attribution (C15): nothing in this world ever sends a peer's authenticated packet from another host's
	// address directly (the byzantine relay re-sends through the relay path only), so whatever underlay address
	// a tunnel records for its peer must be one of that peer's own addresses, never the relay's
	for _, h := range sortedHostInfos(hm) {
		r := h.GetRemote()
		if !r.IsValid() || h.ConnectionState == nil || h.ConnectionState.peerCert == nil {
			continue
		}
		name := h.ConnectionState.peerCert.Certificate.Name()
		for _, p := range w.nodes {
			if p.spec.name != name {
				continue
			}
			if r != p.conn.addr && !slices.Contains(p.spec.altUDP, r) {
				w.fail("C15", "remote-is-not-the-peer", "node %d after %s: the tunnel to %v (%s) records underlay address %v for its peer, whose addresses are %v %v", nd.idx, ev, h.vpnAddrs, name, r, p.conn.addr, p.spec.altUDP)
				return false
			}
		}
	}
	for _, h := range sortedHostInfos(hm) {
		cur := map[uint32]Relay{}
		for _, r := range h.relayState.CopyAllRelayFor() {
			cur[r.LocalIndex] = *r
		}
		prev := w.recs[h]
		for _, idx := range sortedU32(cur) {
			r := cur[idx]
			if _, had := prev[idx]; !had && r.Type == ForwardingType {
				// a forwarding record joins this tunnel's peer with r.PeerAddr: one of the two must have asked this
				// node for it with an authenticated CreateRelayRequest (no third party may set it up for them)
				asked := false
				for _, s := range h.vpnAddrs {
					if w.reqSeen[nd.idx][relayPair{s, r.PeerAddr}] || w.reqSeen[nd.idx][relayPair{r.PeerAddr, s}] {
						asked = true
					}
				}
				if !asked {
					w.fail("C39", "relay-record-not-requested", "node %d after %s: forwarding relay record %d joins tunnel %v with %v, but neither of them sent this node a CreateRelayRequest for the other", nd.idx, ev, idx, h.vpnAddrs, r.PeerAddr)
					return false
				}
			}
		}
		for _, idx := range sortedU32(cur) {
			r := cur[idx]
			if r.Type == ForwardingType && r.State == Established {
				// the onward leg is established only with an index its far end chose: the index this node will put
				// on forwarded packets is one the tunnel's peer named itself (in its request or in its answer), never
				// a default or somebody else's
				w.stats["probe.established_leg_index_checked"]++
				if !w.idxNamed[h][r.RemoteIndex] {
					w.fail("C39", "relay-leg-established-without-peer-index", "node %d after %s: forwarding relay record %d (tunnel %v <-> %v) is Established with remote index %d, which the tunnel's peer never named in a CreateRelayRequest/Response on this tunnel", nd.idx, ev, idx, h.vpnAddrs, r.PeerAddr, r.RemoteIndex)
					return false
				}
			}
		}
		for idx, r := range cur {
			if p, ok := prev[idx]; ok {
				if p.Type != r.Type || p.PeerAddr != r.PeerAddr || p.LocalIndex != r.LocalIndex {
					w.fail("C39", "relay-record-mutated", "node %d after %s: relay record %d of tunnel %v changed identity: type %d->%d peer %v->%v", nd.idx, ev, idx, h.vpnAddrs, p.Type, r.Type, p.PeerAddr, r.PeerAddr)
					return false
				}
				if r.Type == ForwardingType && p.State != Established && r.State == Established {
					// the onward leg counts as established only once the OTHER end has answered: an authenticated
					// CreateRelayResponse (or the consent variant above) from the peer this record joins the tunnel with
					answered := false
					for _, s := range h.vpnAddrs {
						if w.respSeen[nd.idx][relayPair{s, r.PeerAddr}] || w.respSeen[nd.idx][relayPair{r.PeerAddr, s}] {
							answered = true
						}
						// (crossing requests: the other end asked for this tunnel's peer itself)
						if w.reqSeen[nd.idx][relayPair{r.PeerAddr, s}] {
							answered = true
						}
					}
					if !answered {
						w.fail("C39", "relay-established-without-answer", "node %d after %s: forwarding relay record %d (tunnel %v <-> %v) became Established although neither end has sent this node a CreateRelayResponse for the other", nd.idx, ev, idx, h.vpnAddrs, r.PeerAddr)
						return false
					}
				}
				if p.State != PeerRequested && r.State == PeerRequested {
					w.fail("C39", "relay-state-regressed", "node %d after %s: relay record %d of tunnel %v went from state %d back to PeerRequested", nd.idx, ev, idx, h.vpnAddrs, p.State)
					return false
				}
			}
		}
		w.recs[h] = cur
	}
	hm.RLock()
	defer hm.RUnlock()
	for _, idx := range sortedU32(hm.Relays) {
		h := hm.Relays[idx]
		if hm.Indexes[h.localIndexId] != h {
			w.fail("C39", "relay-index-outlives-tunnel", "node %d after %s: relay index %d still registered for a removed tunnel (%v)", nd.idx, ev, idx, h.vpnAddrs)
			return false
		}
		if _, ok := h.relayState.QueryRelayForByIdx(idx); !ok {
			w.fail("C39", "relay-index-not-owned", "node %d after %s: relay index %d points at tunnel %v which has no such relay record", nd.idx, ev, idx, h.vpnAddrs)
			return false
		}
	}
	return true
}

// byzantineControl: a certified endpoint sends crafted relay control messages
// (and relayed data on indexes it was never given) through its real tunnel to a relay.
func (w *srelayWorld) byzantineControl(endpoints []int) {
	tp := w.tp
	X := w.nodes[endpoints[tp.Choose(len(endpoints))]]
	var relayIdxs []int
	for i := range w.nodes {
		if w.relays[i] || i == 0 || (len(w.nodes) > 3 && i == len(w.nodes)-1) {
			relayIdxs = append(relayIdxs, i)
		}
	}
	R := w.nodes[relayIdxs[tp.Choose(len(relayIdxs))]]
	if !X.alive || !R.alive || X == R {
		return
	}
	hi := X.f.hostMap.QueryVpnAddr(R.vpnAddr())
	if hi == nil || hi.ConnectionState == nil {
		return
	}
	pickAddr := func() netip.Addr {
		switch tp.Choose(5) {
		case 0:
			return X.vpnAddr()
		case 1:
			return R.vpnAddr()
		case 2:
			return netip.AddrFrom4([4]byte{10, 128, 0, byte(200 + tp.Choose(20))})
		}
		return w.nodes[tp.Choose(len(w.nodes))].vpnAddr()
	}
	w.stats["fault.byzantine"]++
	if tp.Chance(1, 4) {
		// relayed data on an index X was never given (or someone else's)
		idx := uint32(1 + tp.Choose(1<<20))
		R.f.hostMap.RLock()
		keys := sortedU32(R.f.hostMap.Relays)
		R.f.hostMap.RUnlock()
		if len(keys) > 0 && tp.Chance(2, 3) {
			idx = keys[tp.Choose(len(keys))]
		}
		fake := &Relay{Type: TerminalType, State: Established, LocalIndex: idx, RemoteIndex: idx, PeerAddr: pickAddr()}
		inner := make([]byte, header.Len+32)
		header.Encode(inner[:header.Len], header.Version, header.Message, 0, uint32(tp.Choose(1<<30)), uint64(1+tp.Choose(100)))
		X.f.SendVia(hi, fake, inner, make([]byte, 12), make([]byte, mtu), false, 0)
		w.stats["fault.byzantine.data-on-foreign-index"]++
		return
	}
	msg := NebulaControl{InitiatorRelayIndex: uint32(1 + tp.Choose(1<<20)), ResponderRelayIndex: uint32(tp.Choose(1 << 20))}
	if tp.Chance(1, 2) {
		msg.Type = NebulaControl_CreateRelayRequest
	} else {
		msg.Type = NebulaControl_CreateRelayResponse
	}
	// stale / existing indexes
	if tp.Chance(1, 2) {
		for _, r := range hi.relayState.CopyAllRelayFor() {
			msg.InitiatorRelayIndex = r.LocalIndex
			msg.ResponderRelayIndex = r.RemoteIndex
			break
		}
	} else if tp.Chance(1, 2) {
		// an index of the RECEIVER's relay table, whoever owns it (relay indexes travel in clear on the wire):
		// a response naming somebody else's record must not complete it
		var keys []uint32
		for _, h := range sortedHostInfos(R.f.hostMap) {
			mine := false
			for _, a := range h.vpnAddrs {
				if slices.Contains(X.f.myVpnAddrs, a) {
					mine = true // on R's tunnel to X itself X is a rightful party (nebula resolves by index)
				}
			}
			if mine {
				continue
			}
			for _, r := range h.relayState.CopyAllRelayFor() {
				if !slices.Contains(X.f.myVpnAddrs, r.PeerAddr) {
					keys = append(keys, r.LocalIndex)
				}
			}
		}
		if len(keys) > 0 {
			msg.InitiatorRelayIndex = keys[tp.Choose(len(keys))]
			w.stats["fault.byzantine.foreign-relay-index-in-control"]++
		}
	}
	from, to := pickAddr(), pickAddr()
	if tp.Chance(1, 3) && from.Is4() && to.Is4() {
		b := from.As4()
		msg.OldRelayFromAddr = binary.BigEndian.Uint32(b[:])
		b = to.As4()
		msg.OldRelayToAddr = binary.BigEndian.Uint32(b[:])
	} else {
		msg.RelayFromAddr, msg.RelayToAddr = netAddrToProtoAddr(from), netAddrToProtoAddr(to)
	}
	b, err := msg.Marshal()
	if err != nil {
		return
	}
	copies := 1 + tp.Choose(2)
	w.rc.Logf("t=%v byzantine n%d -> n%d: %s from=%v to=%v initIdx=%d respIdx=%d x%d", w.now, X.idx, R.idx, msg.Type, from, to, msg.InitiatorRelayIndex, msg.ResponderRelayIndex, copies)
	for i := 0; i < copies; i++ {
		X.f.SendMessageToHostInfo(header.Control, 0, hi, b, make([]byte, 12), make([]byte, mtu))
	}
	w.stats["fault.byzantine.control-"+strings.ToLower(msg.Type.String())]++
}

// toggleAmRelay reloads a relay node's am_relay setting.
func (w *srelayWorld) toggleAmRelay() {
	var cands []int
	for i := range w.nodes {
		if i == 0 || (len(w.nodes) > 3 && w.specs[i].relay) || w.relays[i] {
			cands = append(cands, i)
		}
	}
	i := cands[w.tp.Choose(len(cands))]
	nd := w.nodes[i]
	if !nd.alive {
		return
	}
	on := !w.relays[i]
	spec := *nd.spec
	spec.extra = map[string]any{}
	deepMerge(spec.extra, nd.spec.extra)
	var val any = on
	if !on && w.tp.Chance(1, 2) {
		// switched off by removing the key (the documented default is false), not by writing false
		val = nil
		w.stats["op.am_relay_key_removed"]++
	}
	deepMerge(spec.extra, map[string]any{"relay": map[string]any{"am_relay": val}})
	if err := nd.reload(spec.configYAML()); err != nil {
		w.rc.HarnessError("reload am_relay: %v", err)
		return
	}
	nd.spec = &spec
	w.specs[i] = &spec
	if on {
		w.relays[i] = true
	} else {
		delete(w.relays, i)
	}
	w.stats["op.toggle_am_relay"]++
}

package nebula

// C49.sched — the delayed-work scheduler behind Punchy (scheduler.go) under the
// same rule as a whole node: stopping (cancelling its context) at any point
// releases everything. One run: a scheduler with a small or the production queue
// size, its worker (Run) started or not, 0-200 items scheduled at tape-chosen
// instants with delays of 0-2 s, the context cancelled at a tape-chosen instant
// (before, between or after the fires, with the queue empty, partly filled or
// full and the worker gone), more items scheduled after the stop; then 10 s
// pass. No goroutine of the bubble other than the driver may remain: a timer
// callback that fires after the stop must not wait for a worker that is gone.

import (
	"context"
	"fmt"
	"runtime"
	"strings"
	"sync/atomic"
	"time"

	"testing/synctest"

	sk "github.com/slackhq/nebula/internal/verifsimkit"
)

func init() {
	sk.Register("C49.sched", sk.Scenario{Run: runC49Sched, LeakIsViolation: true})
}

func bubbleGoroutinesExceptCaller() []string {
	buf := make([]byte, 8<<20)
	buf = buf[:runtime.Stack(buf, true)]
	var o []string
	mine := "" // "synctest bubble N" of the caller: goroutines stranded in the dead bubbles of earlier runs do not count
	for i, b := range strings.Split(string(buf), "\n\n") {
		nl := strings.IndexByte(b, '\n')
		if i == 0 {
			if nl > 0 {
				if k := strings.Index(b[:nl], "synctest bubble "); k >= 0 {
					mine = strings.TrimRight(b[k:nl], "]:")
				}
			}
			continue
		}
		if nl < 0 || mine == "" || !strings.Contains(b[:nl], mine+"]") {
			continue
		}
		if strings.Contains(b, "synctest.Run") || strings.Contains(b, "testing.tRunner") || strings.Contains(b, "verifsimkit.RunOne") || strings.Contains(b, "testing/synctest.Test") {
			continue
		}
		o = append(o, b)
	}
	return o
}

func runC49Sched(rc *sk.RunCtx) {
	tp := rc.Tape
	qsize := []int{64, 1, 2, 8}[tp.Choose(4)]
	s := NewScheduler[int](qsize)
	ctx, cancel := context.WithCancel(context.Background())
	var handled atomic.Int64
	worker := tp.Chance(4, 5)
	slow := tp.Chance(1, 4) // a worker that takes its time: the queue fills
	if worker {
		go s.Run(ctx, func(int) {
			if slow {
				time.Sleep(50 * time.Millisecond)
			}
			handled.Add(1)
		})
	}
	n := []int{0, 3, 20, 70, 200}[tp.Choose(5)]
	if n > 0 {
		n = 1 + tp.Choose(n)
	}
	stopAt := time.Duration(tp.Choose(2500)) * time.Millisecond
	type ev struct {
		at    time.Duration
		delay time.Duration
	}
	var evs []ev
	for i := 0; i < n; i++ {
		evs = append(evs, ev{time.Duration(tp.Choose(2000)) * time.Millisecond, time.Duration(tp.Choose(2000)) * time.Millisecond})
	}
	start := time.Now()
	stopped := false
	scheduledAfterStop := 0
	// drive in 10 ms steps up to 3 s
	for now := time.Duration(0); now <= 3*time.Second; now += 10 * time.Millisecond {
		for i := range evs {
			if evs[i].at >= now && evs[i].at < now+10*time.Millisecond {
				s.Schedule(ctx, i, evs[i].delay)
				if stopped {
					scheduledAfterStop++
				}
			}
		}
		if !stopped && stopAt < now+10*time.Millisecond {
			cancel()
			stopped = true
		}
		time.Sleep(10 * time.Millisecond)
		synctest.Wait()
	}
	if !stopped {
		cancel()
	}
	time.Sleep(10 * time.Second)
	synctest.Wait()
	rc.AddSimTime(time.Since(start))
	if left := bubbleGoroutinesExceptCaller(); len(left) > 0 {
		lines := strings.Split(left[0], "\n")
		if len(lines) > 14 {
			lines = lines[:14]
		}
		rc.Fail("leak:scheduler", "queue size %d, %d items, context cancelled at %v (worker started=%v, %d handled): %d goroutine(s) still exist 10 s later; first:\n%s", qsize, n, stopAt, worker, handled.Load(), len(left), strings.Join(lines, "\n"))
		return
	}
	rc.Count("probe.items_scheduled", int64(n))
	rc.Count("probe.items_handled", handled.Load())
	rc.Count("probe.scheduled_after_stop", int64(scheduledAfterStop))
	rc.TraceQuiet(fmt.Sprintf("q=%d n=%v stop=%v w=%v", qsize, bucket(int64(n)), bucket(int64(stopAt/(100*time.Millisecond))), worker))
	if n > qsize && int(handled.Load()) < n {
		rc.Nontrivial() // more pending work than the queue holds when the stop came
	}
	rc.Sample(map[string]any{"queue_size": qsize, "items": n, "stop_at": stopAt.String(), "worker": worker, "slow_worker": slow, "handled": handled.Load()})
}

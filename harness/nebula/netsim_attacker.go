package nebula

// The on-path attacker of engine A: it sees every datagram on the simulated
// wire, remembers them, and can re-inject exact copies (replays) or mutated
// variants (forgeries) from the original or a foreign source address. It never
// holds any key material.

import (
	"crypto/sha256"
	"encoding/binary"
	"encoding/hex"
	"encoding/json"
	"fmt"
	"net/netip"
	"sort"
	"strings"
	"time"

	"github.com/slackhq/nebula/header"
)

type captured struct {
	d      *simDatagram
	h      header.H
	hasHdr bool
	dstIdx int // node index the datagram was addressed to (at capture time), -1 unknown
}

type attacker struct {
	w       *simWorld
	all     []*captured
	byType  map[header.MessageType][]*captured
	stage1  []*captured
	stage2  []*captured
	maxKeep int
}

func newAttacker(w *simWorld) *attacker {
	a := &attacker{w: w, byType: map[header.MessageType][]*captured{}, maxKeep: 4000}
	w.tap = a.see
	return a
}

func (a *attacker) see(d *simDatagram) {
	if d.src < 0 || len(a.all) >= a.maxKeep {
		return
	}
	c := &captured{d: &simDatagram{from: d.from, to: d.to, data: append([]byte(nil), d.data...), src: d.src}, dstIdx: a.w.nodeIndexByUDP(d.to)}
	if err := c.h.Parse(d.data); err == nil {
		c.hasHdr = true
		a.byType[c.h.Type] = append(a.byType[c.h.Type], c)
		if c.h.Type == header.Handshake {
			if c.h.MessageCounter == 1 {
				a.stage1 = append(a.stage1, c)
			} else {
				a.stage2 = append(a.stage2, c)
			}
		}
	}
	a.all = append(a.all, c)
}

// encrypted returns the captured datagrams of encrypted message types.
func (a *attacker) encrypted() []*captured {
	var o []*captured
	for _, c := range a.all {
		if c.hasHdr && c.h.Type != header.Handshake && c.h.Type != header.RecvError {
			o = append(o, c)
		}
	}
	return o
}

const foreignUnderlay = "203.0.113.77:5555"

// mutate produces a forged variant of a captured encrypted datagram. The
// returned description names the mutation class. It never returns the
// unmodified bytes.
func (a *attacker) mutate(c *captured) ([]byte, string) {
	tp := a.w.tp
	b := append([]byte(nil), c.d.data...)
	orig := append([]byte(nil), b...)
	kind := ""
	for try := 0; try < 4; try++ {
		switch tp.Choose(9) {
		case 0: // flip bits in the ciphertext / tag
			if len(b) > header.Len {
				i := header.Len + tp.Choose(len(b)-header.Len)
				b[i] ^= byte(1 << tp.Choose(8))
				kind = "flip-body"
			}
		case 1: // flip a bit in the header (type/subtype/reserved/index/counter)
			i := tp.Choose(header.Len)
			b[i] ^= byte(1 << tp.Choose(8))
			kind = fmt.Sprintf("flip-header-byte%d", i)
		case 2: // truncate
			if len(b) > 1 {
				b = b[:tp.Choose(len(b))]
				kind = "truncate"
			}
		case 3: // extend
			ext := make([]byte, 1+tp.Choose(40))
			tp.Bytes(ext)
			b = append(b, ext...)
			kind = "extend"
		case 4: // fresh in-window counter
			ctr := binary.BigEndian.Uint64(b[8:16])
			delta := uint64(1 + tp.Choose(64))
			if tp.Chance(1, 2) && ctr > delta {
				ctr -= delta
			} else {
				ctr += delta
			}
			binary.BigEndian.PutUint64(b[8:16], ctr)
			kind = "counter-substitution"
		case 5: // different index: aim at another tunnel seen on the wire
			if o := a.pickOther(c); o != nil {
				binary.BigEndian.PutUint32(b[4:8], o.h.RemoteIndex)
				kind = "index-substitution"
			}
		case 6: // type/subtype substitution among encrypted types
			types := []header.MessageType{header.Message, header.LightHouse, header.Test, header.CloseTunnel, header.Control}
			t := types[tp.Choose(len(types))]
			st := header.MessageSubType(tp.Choose(2))
			if t == header.Message && tp.Chance(1, 2) {
				st = header.MessageRelay
			}
			b[0] = byte(header.Version)<<4 | byte(t)&0x0f
			b[1] = byte(st)
			kind = "type-substitution"
		case 7: // splice: header of this one, body of another captured datagram
			if o := a.pickOther(c); o != nil && len(o.d.data) > header.Len {
				b = append(append([]byte(nil), b[:header.Len]...), o.d.data[header.Len:]...)
				kind = "splice-body"
			}
		case 8: // splice: header of another, body of this one
			if o := a.pickOther(c); o != nil {
				b = append(append([]byte(nil), o.d.data[:header.Len]...), b[header.Len:]...)
				kind = "splice-header"
			}
		}
		if kind != "" && string(b) != string(orig) {
			// a forgery must not coincide with any datagram a real peer produced
			if !a.isGenuine(b) {
				return b, kind
			}
		}
		b = append([]byte(nil), orig...)
		kind = ""
	}
	// fall back to a guaranteed change
	if len(b) > header.Len {
		b[len(b)-1] ^= 0x80
		return b, "flip-tag"
	}
	return append(b, 0x55), "extend"
}

func (a *attacker) isGenuine(b []byte) bool {
	for _, c := range a.all {
		if string(c.d.data) == string(b) {
			return true
		}
	}
	return false
}

func (a *attacker) pickOther(c *captured) *captured {
	enc := a.encrypted()
	if len(enc) < 2 {
		return nil
	}
	for try := 0; try < 4; try++ {
		o := enc[a.w.tp.Choose(len(enc))]
		if o != c {
			return o
		}
	}
	return nil
}

// ---------------------------------------------------------------------------
// observable state digest of a node (used to show that an event had no effect)

func bitsDigest(b *Bits) string {
	h := sha256.New()
	var tmp [8]byte
	for _, w := range b.bits {
		binary.BigEndian.PutUint64(tmp[:], w)
		h.Write(tmp[:])
	}
	return fmt.Sprintf("%d/%s", b.current, hex.EncodeToString(h.Sum(nil)[:6]))
}

func relayStateDigest(rs *RelayState) string {
	rs.RLock()
	defer rs.RUnlock()
	var parts []string
	for _, r := range rs.relays {
		parts = append(parts, "to:"+r.String())
	}
	idxs := make([]uint32, 0, len(rs.relayForByIdx))
	for i := range rs.relayForByIdx {
		idxs = append(idxs, i)
	}
	sort.Slice(idxs, func(i, j int) bool { return idxs[i] < idxs[j] })
	for _, i := range idxs {
		r := rs.relayForByIdx[i]
		parts = append(parts, fmt.Sprintf("idx%d:%d/%d/%d/%d/%v", i, r.Type, r.State, r.LocalIndex, r.RemoteIndex, r.PeerAddr))
	}
	addrs := make([]netip.Addr, 0, len(rs.relayForByAddr))
	for a := range rs.relayForByAddr {
		addrs = append(addrs, a)
	}
	sort.Slice(addrs, func(i, j int) bool { return addrs[i].Compare(addrs[j]) < 0 })
	for _, a := range addrs {
		r := rs.relayForByAddr[a]
		parts = append(parts, fmt.Sprintf("addr%v:%d/%d/%d/%d", a, r.Type, r.State, r.LocalIndex, r.RemoteIndex))
	}
	return strings.Join(parts, ",")
}

// nodeDigest renders everything a packet could legitimately change on a node:
// hostmap shape, per tunnel roaming/liveness/replay-window/relay state and send
// counter, pending handshakes, lighthouse cache, relay usage.
func nodeDigest(n *simNode) string {
	var sb strings.Builder
	hm := n.f.hostMap
	for _, h := range sortedHostInfos(hm) {
		fmt.Fprintf(&sb, "H %d>%d %v remote=%v in=%v out=%v pd=%v roam=%v/%v", h.localIndexId, h.remoteIndexId, h.vpnAddrs, h.GetRemote(), h.in.Load(), h.out.Load(), h.pendingDeletion.Load(), h.lastRoam.UnixNano(), h.lastRoamRemote)
		if cs := h.ConnectionState; cs != nil {
			fmt.Fprintf(&sb, " ctr=%d win=%s", cs.messageCounter.Load(), bitsDigest(cs.window))
		}
		fmt.Fprintf(&sb, " relay[%s]\n", relayStateDigest(&h.relayState))
	}
	hm.RLock()
	for _, a := range sortedAddrs(hm.Hosts) {
		fmt.Fprintf(&sb, "A %v:", a)
		for _, h := range hm.unlockedGetHostList(a) {
			fmt.Fprintf(&sb, " %d", h.localIndexId)
		}
		sb.WriteString("\n")
	}
	for _, r := range sortedU32(hm.Relays) {
		fmt.Fprintf(&sb, "R %d>%d\n", r, hm.Relays[r].localIndexId)
	}
	for _, r := range sortedU32(hm.RemoteIndexes) {
		fmt.Fprintf(&sb, "X %d>%d\n", r, hm.RemoteIndexes[r].localIndexId)
	}
	hm.RUnlock()
	hs := n.f.handshakeManager
	hs.RLock()
	for _, a := range sortedAddrs(hs.vpnIps) {
		hh := hs.vpnIps[a]
		fmt.Fprintf(&sb, "P %v idx=%d n=%d ready=%v store=%d\n", a, hh.hostinfo.localIndexId, hh.counter, hh.ready, len(hh.packetStore))
	}
	hs.RUnlock()
	lh := n.f.lightHouse
	lh.RLock()
	for _, a := range sortedAddrs(lh.addrMap) {
		rl := lh.addrMap[a]
		cm := rl.CopyCache()
		j, _ := json.Marshal(cm) // encoding/json sorts map keys
		fmt.Fprintf(&sb, "L %v %s bad=%v\n", a, j, rl.CopyBlockedRemotes())
	}
	lh.RUnlock()
	n.cm.relayUsedLock.RLock()
	for _, i := range sortedU32(n.cm.relayUsed) {
		fmt.Fprintf(&sb, "U %d\n", i)
	}
	n.cm.relayUsedLock.RUnlock()
	return sb.String()
}

// firstDiff returns the first differing line of two digests.
func firstDiff(a, b string) string {
	la, lb := strings.Split(a, "\n"), strings.Split(b, "\n")
	for i := 0; i < len(la) || i < len(lb); i++ {
		var x, y string
		if i < len(la) {
			x = la[i]
		}
		if i < len(lb) {
			y = lb[i]
		}
		if x != y {
			return fmt.Sprintf("before: %q\nafter:  %q", x, y)
		}
	}
	return ""
}

// deliverObserved delivers one datagram to its destination right now and
// reports what the receiver did: tun writes, datagrams emitted, state change.
type observed struct {
	to        *simNode
	tunOut    [][]byte
	sent      []*simDatagram
	stateDiff string
}

func (w *simWorld) deliverObserved(d *simDatagram) *observed {
	to := w.nodeByUDP(d.to)
	if to == nil || w.now < to.stallEnd {
		return nil
	}
	w.pump()
	before := nodeDigest(to)
	nt, nc := len(to.tun.out), len(to.conn.out)
	to.recvBatch([]*simDatagram{d})
	to.drainChannels()
	ob := &observed{to: to}
	ob.tunOut = append(ob.tunOut, to.tun.out[nt:]...)
	ob.sent = append(ob.sent, to.conn.out[nc:]...)
	after := nodeDigest(to)
	if before != after {
		ob.stateDiff = firstDiff(before, after)
	}
	return ob
}

// onlyRecvErrors reports whether every datagram in s is a recv_error.
func onlyRecvErrors(s []*simDatagram) bool {
	for _, d := range s {
		var h header.H
		if err := h.Parse(d.data); err != nil || h.Type != header.RecvError {
			return false
		}
	}
	return true
}

var _ = time.Second

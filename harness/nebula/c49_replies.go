package nebula

// C49.replies — what a node's udp reader does with lighthouse answers that
// arrive after Stop. Stop cancels the node's context first (the handshake
// manager's Run loop, which drains the handshake trigger queue, returns) and
// closes the sockets afterwards; answers to queries sent just before are read
// and handled in between. Handling them must not wait for the manager that is
// gone, or the reader never returns and Stop/Wait never finish.
//
// Engine A node (the driver plays the manager's Run loop while the node is
// "running", and stops playing it at the stop point), handshakes.trigger_buffer
// 1-4, a real tunnel to its lighthouse, and more authentic HostQueryReply
// messages from that lighthouse than the queue has room for, each delivered by
// a reader goroutine of its own. Every delivery has to return.

import (
	"fmt"
	"net/netip"
	"time"

	"testing/synctest"

	"github.com/slackhq/nebula/header"
	sk "github.com/slackhq/nebula/internal/verifsimkit"
)

func init() {
	sk.Register("C49.replies", sk.Scenario{Run: runC49Replies, IgnoreLeak: true})
}

func runC49Replies(rc *sk.RunCtx) {
	tp := rc.Tape
	tb := 1 + tp.Choose(4)
	mo := meshOpts{minNodes: 2, maxNodes: 2, noFaults: true, allowLighthouse: true, forceLH: true}
	mo.extra = func(i int, spec *nodeSpec) {
		if spec.extra == nil {
			spec.extra = map[string]any{}
		}
		deepMerge(spec.extra, map[string]any{"handshakes": map[string]any{"trigger_buffer": tb}})
	}
	mw := buildMesh(rc, mo)
	if rc.Failed() {
		return
	}
	defer mw.stopAll()
	L, A := mw.nodes[0], mw.nodes[1]
	if cap(A.f.handshakeManager.trigger) != tb {
		rc.HarnessError("handshakes.trigger_buffer=%d not applied (capacity %d)", tb, cap(A.f.handshakeManager.trigger))
		return
	}
	// a tunnel between the node and its lighthouse
	mw.appSend(1, 0, 0)
	mw.runUntil(3 * time.Second)
	hi := L.f.hostMap.QueryVpnAddr(A.vpnAddr())
	if hi == nil || hi.ConnectionState == nil || matchedPeerTunnel(hi, A) == nil {
		rc.Count("probe.no_tunnel_to_lighthouse", 1)
		return
	}
	k := tb + 1 + tp.Choose(6)
	// the stop point: some answers may still be handled while the manager runs (the driver drains), the rest after
	before := tp.Choose(k - tb)
	A.drainChannels()
	stuckAt := -1
	for i := 0; i < k && stuckAt < 0; i++ {
		peer := netip.AddrFrom4([4]byte{10, 128, 0, byte(60 + i)})
		det := &NebulaMetaDetails{VpnAddr: netAddrToProtoAddr(peer), V4AddrPorts: []*V4AddrPort{{Addr: 0x03000000 | uint32(60+i), Port: 4242}}}
		b, err := (&NebulaMeta{Type: NebulaMeta_HostQueryReply, Details: det}).Marshal()
		if err != nil {
			rc.HarnessError("marshal: %v", err)
			return
		}
		nOut := len(L.conn.out)
		L.f.SendMessageToHostInfo(header.LightHouse, 0, hi, b, make([]byte, 12), make([]byte, mtu))
		sent := append([]*simDatagram(nil), L.conn.out[nOut:]...)
		L.conn.out = L.conn.out[:nOut]
		if len(sent) != 1 {
			rc.HarnessError("lighthouse produced %d datagrams for one answer", len(sent))
			return
		}
		returned := make(chan struct{})
		go func() {
			A.recvBatch(sent)
			close(returned)
		}()
		synctest.Wait()
		select {
		case <-returned:
		default:
			stuckAt = i
		}
		if i < before {
			A.drainChannels() // the manager is still running
			A.conn.out = nil
		}
	}
	rc.Count("probe.answers_after_stop", int64(k-before))
	if stuckAt < 0 {
		rc.Count("probe.reader_returned_for_every_answer", 1)
		rc.Nontrivial()
	} else {
		rc.Fail("reader-waits-for-stopped-manager", "handshakes.trigger_buffer=%d: %d lighthouse answers handled while the handshake manager ran, then the node's context is cancelled (nobody drains the trigger queue); delivery of answer %d never returns (blocked goroutines: %s) — the udp reader outlives Stop", tb, before, stuckAt+1, blockedIn("handleHostQueryReply"))
		for i := 0; i < 64; i++ {
			A.drainChannels()
			synctest.Wait()
		}
	}
	rc.TraceQuiet(fmt.Sprintf("tb=%d k=%d before=%d", tb, k, before))
	rc.Sample(map[string]any{"trigger_buffer": tb, "answers": k, "handled_while_running": before})
}

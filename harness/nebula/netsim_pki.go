package nebula

// Identity generation for simulated worlds. Everything is derived from
// crypto/rand, which testing/cryptotest seeds per run, so identities are a pure
// function of the run seed.

import (
	"crypto/ecdsa"
	"crypto/ed25519"
	"crypto/elliptic"
	"crypto/rand"
	"net/netip"
	"strings"
	"time"

	"github.com/slackhq/nebula/cert"
	"github.com/slackhq/nebula/cert_test"
)

type simCA struct {
	crt   cert.Certificate
	key   []byte
	pem   []byte
	curve cert.Curve
	fp    string
}

func newSimCA(v cert.Version, curve cert.Curve, name string, before, after time.Time, nets, unsafe []netip.Prefix, groups []string) *simCA {
	var pub, priv []byte
	switch curve {
	case cert.Curve_CURVE25519:
		pu, pr, err := ed25519.GenerateKey(rand.Reader)
		if err != nil {
			panic(err)
		}
		pub, priv = pu, pr
	case cert.Curve_P256:
		k, err := ecdsa.GenerateKey(elliptic.P256(), rand.Reader)
		if err != nil {
			panic(err)
		}
		pub = elliptic.Marshal(elliptic.P256(), k.PublicKey.X, k.PublicKey.Y)
		priv = k.D.FillBytes(make([]byte, 32))
	}
	t := &cert.TBSCertificate{Curve: curve, Version: v, Name: name, NotBefore: time.Unix(before.Unix(), 0), NotAfter: time.Unix(after.Unix(), 0),
		PublicKey: pub, Networks: nets, UnsafeNetworks: unsafe, Groups: groups, IsCA: true}
	c, err := t.Sign(nil, curve, priv)
	if err != nil {
		panic(err)
	}
	p, err := c.MarshalPEM()
	if err != nil {
		panic(err)
	}
	fp, _ := c.Fingerprint()
	return &simCA{crt: c, key: priv, pem: p, curve: curve, fp: fp}
}

// simIdentity is one node identity: one static key pair, one or two
// certificates (v1 and/or v2) for it, and the trust bundle it is configured with.
type simIdentity struct {
	ca     *simCA
	trust  []*simCA
	certs  []cert.Certificate
	pems   [][]byte
	pub    []byte
	priv   []byte
	keyPEM []byte
	curve  cert.Curve
}

func (id *simIdentity) caPEM() string {
	var sb strings.Builder
	for _, c := range id.trust {
		sb.Write(c.pem)
	}
	return sb.String()
}

func (id *simIdentity) certPEM() string {
	var sb strings.Builder
	for _, p := range id.pems {
		sb.Write(p)
	}
	return sb.String()
}

func (id *simIdentity) cert(v cert.Version) cert.Certificate {
	for _, c := range id.certs {
		if c.Version() == v {
			return c
		}
	}
	return nil
}

func (id *simIdentity) fingerprints() []string {
	var o []string
	for _, c := range id.certs {
		fp, _ := c.Fingerprint()
		o = append(o, fp)
	}
	return o
}

// newSimIdentity issues certificates of the given versions for a fresh key pair.
func newSimIdentity(ca *simCA, versions []cert.Version, name string, before, after time.Time, nets, unsafe []netip.Prefix, groups []string) *simIdentity {
	var pub, priv []byte
	switch ca.curve {
	case cert.Curve_CURVE25519:
		pub, priv = cert_test.X25519Keypair()
	case cert.Curve_P256:
		pub, priv = cert_test.P256Keypair()
	}
	id := &simIdentity{ca: ca, trust: []*simCA{ca}, pub: pub, priv: priv, curve: ca.curve,
		keyPEM: cert.MarshalPrivateKeyToPEM(ca.curve, priv)}
	for _, v := range versions {
		id.issue(ca, v, name, before, after, nets, unsafe, groups)
	}
	return id
}

// issue adds (or replaces) the certificate of version v for this identity's key.
func (id *simIdentity) issue(ca *simCA, v cert.Version, name string, before, after time.Time, nets, unsafe []netip.Prefix, groups []string) cert.Certificate {
	n := nets
	if v == cert.Version1 && len(nets) > 1 {
		n = nets[:1] // v1 certificates carry a single network
	}
	t := &cert.TBSCertificate{Version: v, Curve: ca.curve, Name: name, Networks: n, UnsafeNetworks: unsafe, Groups: groups,
		NotBefore: time.Unix(before.Unix(), 0), NotAfter: time.Unix(after.Unix(), 0), PublicKey: id.pub}
	c, err := t.Sign(ca.crt, ca.curve, ca.key)
	if err != nil {
		panic(err)
	}
	p, err := c.MarshalPEM()
	if err != nil {
		panic(err)
	}
	for i, old := range id.certs {
		if old.Version() == v {
			id.certs[i], id.pems[i] = c, p
			return c
		}
	}
	id.certs = append(id.certs, c)
	id.pems = append(id.pems, p)
	return c
}

// clone returns a copy whose certificate set can be changed independently
// (same key pair).
func (id *simIdentity) clone() *simIdentity {
	c := *id
	c.certs = append([]cert.Certificate(nil), id.certs...)
	c.pems = append([][]byte(nil), id.pems...)
	c.trust = append([]*simCA(nil), id.trust...)
	return &c
}

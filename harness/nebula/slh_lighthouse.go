package nebula

// Scenario family "S-lh" (engine A): a lighthouse (node 0), ordinary peers that
// discover each other through it, multi-homed peers advertising several IPv4
// (public and private) and IPv6 underlay addresses, static and calculated
// remotes, remote allow lists (global and per overlay range), preferred ranges
// changed by reload, and a byzantine certified peer that sends every lighthouse
// message type in v1 and v2 encodings with arbitrary claimed owners, addresses
// inside the overlay range, denied addresses and more than ten addresses.
//
// C35 — lighthouse information is accepted only from authorized senders
//       (state snapshot around each crafted message).
// C36 — unusable underlay addresses are never used (wire-level invariant over
//       every datagram every node emits + cache bounds + static hosts).
// C37 — remote address lists are deduplicated and deterministically ordered
//       (reference recomputation after every event).

import (
	"encoding/binary"
	"fmt"
	"net/netip"
	"slices"
	"sort"
	"strings"
	"testing/synctest"
	"time"

	"github.com/slackhq/nebula/cert"
	"github.com/slackhq/nebula/header"
	sk "github.com/slackhq/nebula/internal/verifsimkit"
)

func init() {
	for _, p := range []string{"C35", "C36", "C37"} {
		p := p
		sk.Register(p+".lh", sk.Scenario{Run: func(rc *sk.RunCtx) { runSLH(rc, p) }})
	}
}

// refAllowList is the reference evaluator of a remote allow list (longest
// prefix wins; lists generated here always carry explicit defaults).
type refAllowList struct {
	global map[string]bool            // cidr -> allow
	ranges map[string]map[string]bool // overlay cidr -> (cidr -> allow)
}

func lpm(m map[string]bool, a netip.Addr) (bool, bool) {
	best, val, found := -1, false, false
	for c, v := range m {
		p := netip.MustParsePrefix(c)
		if p.Addr().Is4() != a.Is4() {
			continue
		}
		if p.Contains(a) && p.Bits() > best {
			best, val, found = p.Bits(), v, true
		}
	}
	return val, found
}

func (r *refAllowList) allow(vpn []netip.Addr, udp netip.Addr) bool {
	udp = udp.Unmap()
	if r == nil {
		return true
	}
	if r.global != nil {
		if v, ok := lpm(r.global, udp); ok && !v {
			return false
		}
	}
	for _, va := range vpn {
		best, bestBits := map[string]bool(nil), -1
		for c, m := range r.ranges {
			p := netip.MustParsePrefix(c)
			if p.Contains(va) && p.Bits() > bestBits {
				best, bestBits = m, p.Bits()
			}
		}
		if best != nil {
			if v, ok := lpm(best, udp); ok && !v {
				return false
			}
		}
	}
	return true
}

func (r *refAllowList) config() map[string]any {
	out := map[string]any{}
	if r == nil {
		return out
	}
	if r.global != nil {
		g := map[string]any{}
		for k, v := range r.global {
			g[k] = v
		}
		out["remote_allow_list"] = g
	}
	if r.ranges != nil {
		rr := map[string]any{}
		for k, m := range r.ranges {
			g := map[string]any{}
			for c, v := range m {
				g[c] = v
			}
			rr[k] = g
		}
		out["remote_allow_ranges"] = rr
	}
	return out
}

type slhWorld struct {
	*meshWorld
	focus   string
	allow   []*refAllowList // per node
	pref    [][]netip.Prefix // per node preferred ranges (model)
	stats   map[string]int
	byz     int
	// droppedLH: clients whose lighthouse.hosts no longer lists node 0 (configuration truth, not nebula's view)
	droppedLH map[int]bool
	statics   []map[netip.Addr][]netip.AddrPort // per node: static host -> configured addresses
	// marked: the harness's own memory of "a wrong host answered node N's handshake for peer P from address E"
	// (ground truth: the answering node does not own P). The mark lives as long as the node's address cache object
	// for P does and no handshake with P completed since.
	marked   map[slhMarkKey]*slhMark
	pendingP map[*simNode]map[uint32]netip.Addr // before a delivery: pending handshake index -> dialled peer
}

type slhMarkKey struct {
	node *simNode
	peer netip.Addr
	addr netip.AddrPort
}
type slhMark struct {
	rl *RemoteList
}

func (w *slhWorld) fail(prop, class, format string, a ...any) {
	if prop != w.focus {
		w.rc.Count("probe.other_property_oracle_fired."+prop, 1)
		return
	}
	w.rc.Fail(class, format, a...)
}

// isFakePool: the address ranges fakeAddrs draws from (no node lives there, no honest node reports them).
func isFakePool(a netip.AddrPort) bool {
	ip := a.Addr()
	if ip.Is4() {
		b := ip.As4()
		switch {
		case b[0] == 10 && b[1] == 128 && b[2] == 0 && b[3] >= 50 && b[3] < 150:
			return true
		case b[0] == 2 && b[1] == 0 && b[2] == 0 && b[3] >= 200:
			return true
		case b[0] == 192 && b[1] == 168 && b[2] == 7 && b[3] >= 200:
			return true
		case b[0] == 198 && b[1] == 51 && b[2] == 100:
			return true
		}
		return false
	}
	b := ip.As16()
	if b[14] != 1 {
		return false
	}
	return (b[0] == 0x20 && b[1] == 0x01 && b[2] == 0x0d && b[3] == 0xb8) || (b[0] == 0xfd && b[1] == 0 && b[2] == 0 && b[3] == 0) || (b[0] == 0xfe && b[1] == 0x80 && b[2] == 0 && b[3] == 0)
}

func altAddrs(i int) []netip.AddrPort {
	return []netip.AddrPort{
		netip.AddrPortFrom(netip.AddrFrom4([4]byte{2, 0, 0, byte(i + 1)}), 4242),
		netip.AddrPortFrom(netip.AddrFrom4([4]byte{192, 168, 7, byte(i + 1)}), 4242),
		netip.AddrPortFrom(netip.AddrFrom16([16]byte{0x20, 0x01, 0x0d, 0xb8, 0, 0, 0, 0, 0, 0, 0, 0, 0, 0, 0, byte(i + 1)}), 4242),
	}
}

func runSLH(rc *sk.RunCtx, focus string) {
	tp := rc.Tape
	horizon := time.Duration(15+tp.Choose(30)) * time.Second
	if rc.Thorough() {
		horizon = time.Duration(30+tp.Choose(120)) * time.Second
	}
	w := &slhWorld{focus: focus, stats: map[string]int{}}
	useAllow := tp.Chance(2, 3)
	// relayOn: the lighthouse really relays and everybody lists it, and an allow list may deny the whole primary
	// underlay range except the lighthouse: tunnels to such a node exist through the relay only, while its peers
	// keep probing it directly from the denied addresses
	relayOn := tp.Chance(1, 2)
	// tier2: node 1 is itself a lighthouse (am_lighthouse) that keeps node 0 under lighthouse.hosts — a lighthouse
	// with an upstream lighthouse. What the upstream sends it about a third host A is a query answer (filed under
	// the upstream's name), never A's own record, which is what this lighthouse would serve.
	tier2 := tp.Chance(1, 4)
	mw := buildMesh(rc, meshOpts{minNodes: 3, maxNodes: 5, allowLighthouse: true, forceLH: true, multiAddr: true, allowV1: true, horizon: horizon,
		extra: func(i int, s *nodeSpec) {
			// multi-homing
			if i > 0 && tp.Chance(2, 3) {
				alts := altAddrs(i)
				for _, a := range alts {
					if tp.Chance(2, 3) {
						s.altUDP = append(s.altUDP, a)
					}
				}
			}
			var al *refAllowList
			if useAllow && tp.Chance(2, 3) {
				al = &refAllowList{}
				if tp.Chance(2, 3) {
					al.global = map[string]bool{"0.0.0.0/0": true, "::/0": tp.Chance(2, 3)}
					if tp.Chance(1, 2) {
						al.global["2.0.0.0/8"] = false
					}
					if tp.Chance(1, 3) {
						al.global["192.168.0.0/16"] = false
					}
					if relayOn && i > 0 && tp.Chance(1, 2) {
						al.global["1.0.0.0/8"] = false
						al.global["1.0.0.1/32"] = true
					}
				}
				if tp.Chance(1, 2) {
					// the inside range: all nodes, or only some of the peers (not the lighthouse, 10.128.0.1)
					rk := []string{"10.128.0.0/29", "10.128.0.2/31", "10.128.0.4/30", "10.128.0.0/29"}[tp.Choose(4)]
					al.ranges = map[string]map[string]bool{rk: {"0.0.0.0/0": true, "::/0": true, "2.0.0.0/8": tp.Chance(1, 2), "192.168.7.0/24": tp.Chance(1, 2)}}
				}
			}
			w.allow = append(w.allow, al)
			var pr []netip.Prefix
			var prs []any
			if tp.Chance(1, 2) {
				pr = append(pr, netip.MustParsePrefix("192.168.0.0/16"))
				prs = append(prs, "192.168.0.0/16")
			}
			w.pref = append(w.pref, pr)
			lhc := al.config()
			if i > 0 && tp.Chance(1, 3) {
				// calculated remotes: overlay 10.128.0.x -> underlay 3.0.0.x (nobody lives there)
				lhc["calculated_remotes"] = map[string]any{"10.128.0.0/24": []any{map[string]any{"mask": "3.0.0.0/24", "port": 4242}}}
			}
			deepMerge(s.extra, map[string]any{"lighthouse": lhc, "preferred_ranges": prs,
				"punchy": map[string]any{"punch": true, "respond": true, "delay": "40ms", "respond_delay": "80ms"}})
			if relayOn && i == 0 {
				s.relay = true
			}
			if tier2 && i == 1 {
				s.lighthouse = true
			}
			if i > 0 && (relayOn || tp.Chance(1, 2)) {
				// the node advertises relays, listed in descending order (the candidate list must come out sorted
				// and deduplicated whatever the reporting order, also for peers with a single direct address)
				var rl []any
				for k := 2; k >= 0; k-- {
					if k != i && (tp.Chance(2, 3) || (relayOn && k == 0)) {
						rl = append(rl, overlayAddr(k, 0).Addr().String())
					}
				}
				if len(rl) > 0 {
					deepMerge(s.extra, map[string]any{"relay": map[string]any{"relays": rl, "use_relays": true}})
				}
			}
		}})
	if rc.Failed() {
		return
	}
	defer mw.stopAll()
	w.meshWorld = mw
	n := len(mw.nodes)
	w.byz = 1 + tp.Choose(n-1)
	if tp.Chance(1, 4) || (tier2 && tp.Chance(1, 2)) {
		// the lighthouse itself misbehaves: what it sends is authorized only for as long as the receiver still
		// lists it under lighthouse.hosts (reloads drop it, see dropLighthouse)
		w.byz = 0
	}
	w.droppedLH = map[int]bool{}
	for i, nd := range mw.nodes {
		st := map[netip.Addr][]netip.AddrPort{}
		for k, v := range nd.spec.static {
			a := netip.MustParseAddr(k)
			for _, s := range v {
				st[a] = append(st[a], netip.MustParseAddrPort(s))
			}
		}
		w.statics = append(w.statics, st)
		_ = i
	}
	rc.Logf("byzantine peer: n%d; allow lists: %v; node 1 is a second-tier lighthouse: %v", w.byz, useAllow, tier2)
	if tier2 {
		w.stats["world.tier2_lighthouse"]++
	}

	mw.onWire = func(from *simNode, d *simDatagram) { w.checkDestination(from, d) }
	w.marked = map[slhMarkKey]*slhMark{}
	mw.beforeDeliver = func(to *simNode, d *simDatagram) { w.noteHandshakeReply(to, d) }
	// a completed handshake with the peer lifts the marks (the node clears its own list then); looked at after every
	// delivery, because the tunnel may be gone again by the time the address is next dialled (thorough-tier false
	// alarm of the first version, which only looked for a tunnel at dialling time)
	mw.afterDeliver = func(to *simNode, d *simDatagram) {
		for k := range w.marked {
			if k.node == to {
				if hi := to.f.hostMap.QueryVpnAddr(k.peer); hi != nil && hi.ConnectionState != nil {
					delete(w.marked, k)
				}
			}
		}
	}
	mw.afterEvent = func(name string) {
		for _, nd := range mw.nodes {
			if !nd.alive {
				continue
			}
			if !w.checkCaches(nd, name) {
				return
			}
		}
	}
	nw := 40 + tp.Choose(80)
	nops := 6 + tp.Choose(14)
	nbyz := 20 + tp.Choose(80)
	if rc.Thorough() {
		nw, nops, nbyz = nw*3, nops*3, nbyz*3
	}
	mw.scheduleWorkload(nw, 0, horizon)
	mw.scheduleOperator(nops, 2*time.Second, horizon, []string{"rehandshake", "close", "close-local", "restart", "burst", "stall", "partition"})
	for k := 0; k < nbyz; k++ {
		at := 2*time.Second + time.Duration(tp.Choose(int((horizon-2*time.Second)/time.Millisecond)))*time.Millisecond
		kind := tp.Choose(9)
		mw.at(at, "slh-byz", func() {
			switch {
			case kind < 6:
				w.byzantineMessage()
			case kind == 6:
				w.reloadPreferred()
			case kind == 7:
				w.roam()
			case kind == 8:
				if w.byz == 0 {
					w.dropLighthouse()
				} else {
					w.byzantineMessage()
				}
			}
		})
	}
	mw.runUntil(horizon)
	for k, v := range w.stats {
		rc.Count(k, int64(v))
	}
	rc.TraceQuiet(fmt.Sprintf("byz=%d dst=%d lists=%d", bucket(int64(w.stats["fault.byzantine_message"])), bucket(int64(w.stats["probe.destinations_checked"])), bucket(int64(w.stats["probe.lists_checked"]))))
	if w.stats["fault.byzantine_message"] > 5 && w.stats["probe.destinations_checked"] > 50 && w.stats["probe.nontrivial_lists"] > 0 {
		rc.Nontrivial()
	}
	rc.Sample(map[string]any{"nodes": n, "byzantine": w.byz, "allow_lists": useAllow, "outcomes": w.stats, "events": mw.steps})
}

// ---------------------------------------------------------------------------
// C36 (a)-(c): every datagram's destination

func (w *slhWorld) vpnCandidates(from *simNode, d *simDatagram) ([][]netip.Addr, bool, bool) {
	var h header.H
	var cands [][]netip.Addr
	stage1 := false
	if err := h.Parse(d.data); err != nil {
		// punch: anyone whose candidate list or current remote is this address
		for _, hi := range sortedHostInfos(from.f.hostMap) {
			if hi.GetRemote() == d.to || (hi.remotes != nil && slices.Contains(hi.remotes.CopyAddrs(nil), d.to)) {
				cands = append(cands, hi.vpnAddrs)
			}
		}
		lh := from.f.lightHouse
		lh.RLock()
		for _, a := range sortedAddrs(lh.addrMap) {
			if slices.Contains(lh.addrMap[a].CopyAddrs(nil), d.to) {
				cands = append(cands, []netip.Addr{a})
			}
		}
		lh.RUnlock()
		return cands, false, true
	}
	switch {
	case h.Type == header.RecvError:
		return nil, false, false // a reply to whatever source sent an unknown index: not a handshake, punch or data
	case h.Type == header.Handshake && h.MessageCounter == 1:
		stage1 = true
		hs := from.f.handshakeManager
		hs.RLock()
		for _, a := range sortedAddrs(hs.vpnIps) {
			hh := hs.vpnIps[a]
			if hh.hostinfo != nil && string(hh.hostinfo.HandshakePacket[handshakePacketStage0]) == string(d.data) {
				cands = append(cands, []netip.Addr{a})
			}
		}
		hs.RUnlock()
	default:
		if hi := from.f.hostMap.QueryReverseIndex(h.RemoteIndex); hi != nil {
			cands = append(cands, hi.vpnAddrs)
		}
		if len(cands) == 0 {
			for _, hi := range sortedHostInfos(from.f.hostMap) {
				if hi.GetRemote() == d.to {
					cands = append(cands, hi.vpnAddrs)
				}
			}
		}
	}
	return cands, stage1, true
}

func (w *slhWorld) checkDestination(from *simNode, d *simDatagram) {
	for _, p := range from.spec.nets {
		if p.Contains(d.to.Addr().Unmap()) {
			w.fail("C36", "destination-in-overlay", "node %d sent a datagram to %v, which lies inside its own overlay network %v", from.idx, d.to, p)
			return
		}
	}
	cands, stage1, judge := w.vpnCandidates(from, d)
	if !judge {
		return
	}
	w.stats["probe.destinations_checked"]++
	if len(cands) == 0 {
		w.stats["probe.destinations_unattributed"]++
		return
	}
	al := w.allow[from.idx]
	if al != nil {
		ok := false
		for _, c := range cands {
			// a multi-address peer lies in several overlay ranges: it is enough that the address is
			// allowed for one of the peer's overlay addresses (the statement speaks of "the peer's range")
			// The tunnel object being dialled may know only the dialled address while the peer (ground truth) owns
			// several: the node's address cache for that peer is shared by all of them and filters with whichever
			// addresses it knew when it was created (thorough-tier false alarm, corrected: expand to the owner's set).
			full := append([]netip.Addr(nil), c...)
			for _, one := range c {
				for _, p := range w.nodes {
					owns := false
					for _, pn := range p.spec.nets {
						if pn.Addr() == one {
							owns = true
						}
					}
					if owns {
						for _, pn := range p.spec.nets {
							if !slices.Contains(full, pn.Addr()) {
								full = append(full, pn.Addr())
							}
						}
					}
				}
			}
			for _, one := range full {
				if al.allow([]netip.Addr{one}, d.to.Addr().Unmap()) {
					ok = true
				}
			}
		}
		if !ok {
			w.fail("C36", "destination-denied-by-allow-list", "node %d sent a datagram (%d bytes, first byte %#x) to %v for peer(s) %v although its remote allow list denies that address for them (global %v, ranges %v)", from.idx, len(d.data), firstByte(d.data), d.to, cands, al.global, al.ranges)
			return
		}
		w.stats["probe.allow_list_evaluations"]++
	}
	if stage1 {
		for _, c := range cands {
			k := slhMarkKey{from, c[0], d.to}
			if mk := w.marked[k]; mk != nil {
				lh := from.f.lightHouse
				lh.RLock()
				cur := lh.addrMap[c[0]]
				lh.RUnlock()
				established := false
				if hi := from.f.hostMap.QueryVpnAddr(c[0]); hi != nil && hi.ConnectionState != nil {
					established = true
				}
				if cur != mk.rl || established {
					delete(w.marked, k) // the cache entry was dropped and rebuilt, or a handshake with the peer completed
					continue
				}
				w.stats["probe.marked_address_checked"]++
				w.fail("C36", "handshake-to-marked-remote", "node %d sent a handshake for %v to %v: a wrong host answered from that address earlier, no handshake with %v has completed since and the node still holds the same address cache for it", from.idx, c[0], d.to, c[0])
				return
			}
		}
		hs := from.f.handshakeManager
		hs.RLock()
		defer hs.RUnlock()
		for _, c := range cands {
			if hh := hs.vpnIps[c[0]]; hh != nil && hh.hostinfo.remotes != nil {
				if slices.Contains(hh.hostinfo.remotes.CopyBlockedRemotes(), d.to) {
					w.fail("C36", "handshake-to-blocked-remote", "node %d sent a handshake for %v to %v although a wrong host answered from there during this handshake", from.idx, c[0], d.to)
					return
				}
			}
		}
	}
}

// noteHandshakeReply runs before every delivery: a handshake reply that answers node N's pending handshake for
// peer P but was sent by a node that does not own P is "a wrong host answered" — remembered by the harness itself,
// because the node's own list of such addresses is implementation state that a defect may clear.
func (w *slhWorld) noteHandshakeReply(to *simNode, d *simDatagram) {
	var h header.H
	if err := h.Parse(d.data); err != nil || h.Type != header.Handshake || h.MessageCounter != 2 || d.src < 0 || d.src >= len(w.nodes) {
		return
	}
	hs := to.f.handshakeManager
	hs.RLock()
	hh := hs.indexes[h.RemoteIndex]
	var peer netip.Addr
	var rl *RemoteList
	if hh != nil && hh.hostinfo != nil && len(hh.hostinfo.vpnAddrs) > 0 {
		peer, rl = hh.hostinfo.vpnAddrs[0], hh.hostinfo.remotes
	}
	hs.RUnlock()
	if !peer.IsValid() || rl == nil {
		return
	}
	sender := w.nodes[d.src]
	for _, p := range sender.spec.nets {
		if p.Addr() == peer {
			return // the right host
		}
	}
	w.marked[slhMarkKey{to, peer, d.from}] = &slhMark{rl: rl}
	w.stats["probe.wrong_host_answers_noted"]++
}

func firstByte(b []byte) byte {
	if len(b) == 0 {
		return 0
	}
	return b[0]
}

// ---------------------------------------------------------------------------
// C36 (d)-(e) and C37: caches after every event

func sortAddrPortsRef(l []netip.AddrPort, pref []netip.Prefix) {
	// preferred ranges first; within (and after) them IPv6, then public IPv4, then private IPv4
	class := func(a netip.AddrPort) int {
		c := 4
		for _, p := range pref {
			if p.Contains(a.Addr()) {
				c = 0
			}
		}
		switch {
		case !a.Addr().Is4():
			return c + 1
		case !a.Addr().IsPrivate():
			return c + 2
		}
		return c + 3
	}
	sort.SliceStable(l, func(i, j int) bool {
		ci, cj := class(l[i]), class(l[j])
		if ci != cj {
			return ci < cj
		}
		if c := l[i].Addr().Compare(l[j].Addr()); c != 0 {
			return c < 0
		}
		return l[i].Port() < l[j].Port()
	})
}

func (w *slhWorld) checkList(nd *simNode, rl *RemoteList, what string, ev string) bool {
	pref := w.pref[nd.idx]
	got := rl.CopyAddrs(pref)
	rl.RLock()
	gotRelays := slices.Clone(rl.relays)
	vpn := slices.Clone(rl.vpnAddrs)
	// the cap is kept per reported list (a source reports an IPv4 list and an IPv6 list, ten entries each at most);
	// counted on the stored lists themselves: an IPv4-mapped entry of the IPv6 list still belongs to that list
	// (counting by the family of the unmapped address was a false alarm of this oracle)
	n4s, n6s := map[string]int{}, map[string]int{}
	for owner, mc := range rl.cache {
		if mc.v4 != nil {
			n4s[owner.String()] = len(mc.v4.reported)
		}
		if mc.v6 != nil {
			n6s[owner.String()] = len(mc.v6.reported)
		}
	}
	rl.RUnlock()
	cm := rl.CopyCache()
	blocked := rl.CopyBlockedRemotes()
	set := map[netip.AddrPort]bool{}
	relSet := map[netip.Addr]bool{}
	for owner, c := range *cm {
		n4, n6 := n4s[owner], n6s[owner]
		if n4 > MaxRemotes || n6 > MaxRemotes {
			w.fail("C36", "too-many-reported", "node %d after %s: %s holds %d IPv4 and %d IPv6 reported addresses from source %s (limit %d each)", nd.idx, ev, what, n4, n6, owner, MaxRemotes)
			return false
		}
		if len(c.Relay) > MaxRemotes {
			w.fail("C36", "too-many-relays", "node %d after %s: %s holds %d relays from source %s (limit %d)", nd.idx, ev, what, len(c.Relay), owner, MaxRemotes)
			return false
		}
		for _, a := range append(append([]netip.AddrPort(nil), c.Learned...), c.Reported...) {
			if !slices.Contains(blocked, a) {
				set[a] = true
			}
		}
		for _, r := range c.Relay {
			relSet[r] = true
		}
	}
	// statically configured / resolved addresses
	rl.RLock()
	hr := rl.hr
	rl.RUnlock()
	for _, a := range hr.GetAddrs() {
		if slices.Contains(blocked, a) {
			continue
		}
		if al := w.allow[nd.idx]; al != nil && !al.allow(vpn, a.Addr()) {
			continue
		}
		in := false
		for _, p := range nd.spec.nets {
			if p.Contains(a.Addr()) {
				in = true
			}
		}
		if !in {
			set[a] = true
		}
	}
	want := make([]netip.AddrPort, 0, len(set))
	for a := range set {
		want = append(want, a)
	}
	sortAddrPortsRef(want, pref)
	w.stats["probe.lists_checked"]++
	if len(want) >= 3 {
		w.stats["probe.nontrivial_lists"]++
	}
	if !slices.Equal(got, want) {
		w.fail("C37", "address-list-differs", "node %d after %s: %s (preferred ranges %v)\nlist:      %v\nreference: %v\nblocked:   %v", nd.idx, ev, what, pref, got, want, blocked)
		return false
	}
	wantRel := make([]netip.Addr, 0, len(relSet))
	for r := range relSet {
		wantRel = append(wantRel, r)
	}
	sort.Slice(wantRel, func(i, j int) bool { return wantRel[i].Compare(wantRel[j]) < 0 })
	if !slices.Equal(gotRelays, wantRel) && !(len(gotRelays) == 0 && len(wantRel) == 0) {
		w.fail("C37", "relay-list-differs", "node %d after %s: %s relay candidates %v, reference %v", nd.idx, ev, what, gotRelays, wantRel)
		return false
	}
	// overlay-range addresses must never be candidates
	for _, a := range got {
		for _, p := range nd.spec.nets {
			if p.Contains(a.Addr()) {
				w.fail("C36", "overlay-address-candidate", "node %d after %s: %s lists %v which lies inside the node's overlay network %v", nd.idx, ev, what, a, p)
				return false
			}
		}
	}
	return true
}

func (w *slhWorld) checkCaches(nd *simNode, ev string) bool {
	lh := nd.f.lightHouse
	lh.RLock()
	addrs := sortedAddrs(lh.addrMap)
	lists := make([]*RemoteList, len(addrs))
	for i, a := range addrs {
		lists[i] = lh.addrMap[a]
	}
	lh.RUnlock()
	seen := map[*RemoteList]bool{}
	for i, rl := range lists {
		if seen[rl] {
			continue
		}
		seen[rl] = true
		if !w.checkList(nd, rl, fmt.Sprintf("lighthouse cache entry for %v", addrs[i]), ev) {
			return false
		}
	}
	// provenance (C35): the byzantine peer's invented addresses come from pools no honest node ever reports. While
	// the lighthouse is honest they may only ever sit in the entries for the byzantine peer's own overlay addresses
	// (what it reports about itself, and what the lighthouse hands on about it) — in anybody else's entry they were
	// recorded for an address the sender was not authenticated as.
	if w.byz != 0 {
		zAddrs := w.nodes[w.byz].f.myVpnAddrs
		for i, rl := range lists {
			if slices.Contains(zAddrs, addrs[i]) {
				continue
			}
			shared := false // the same list object may also be filed under one of Z's addresses
			for j, other := range lists {
				if other == rl && slices.Contains(zAddrs, addrs[j]) {
					shared = true
				}
			}
			if shared {
				continue
			}
			for _, a := range rl.CopyAddrs(nil) {
				if isFakePool(a) {
					w.fail("C35", "foreign-entry-polluted", "node %d after %s: the address cache entry for %v holds %v, an address only the byzantine peer %v ever names, although that peer is not %v", nd.idx, ev, addrs[i], a, zAddrs, addrs[i])
					return false
				}
			}
		}
	}
	for _, hi := range sortedHostInfos(nd.f.hostMap) {
		if hi.remotes != nil && !seen[hi.remotes] {
			seen[hi.remotes] = true
			if !w.checkList(nd, hi.remotes, fmt.Sprintf("candidate list of tunnel to %v", hi.vpnAddrs), ev) {
				return false
			}
		}
	}
	// statically configured hosts keep their configured addresses as candidates
	for sa, conf := range w.statics[nd.idx] {
		lh.RLock()
		rl := lh.addrMap[sa]
		lh.RUnlock()
		if rl == nil {
			w.fail("C36", "static-host-forgotten", "node %d after %s: static host %v has no candidate list any more", nd.idx, ev, sa)
			return false
		}
		got := rl.CopyAddrs(w.pref[nd.idx])
		blocked := rl.CopyBlockedRemotes()
		for _, c := range conf {
			if slices.Contains(blocked, c) {
				continue
			}
			if al := w.allow[nd.idx]; al != nil && !al.allow([]netip.Addr{sa}, c.Addr()) {
				continue
			}
			if !slices.Contains(got, c) {
				w.fail("C36", "static-address-lost", "node %d after %s: static host %v lost its configured address %v (candidates now %v)", nd.idx, ev, sa, c, got)
				return false
			}
		}
	}
	return true
}

// ---------------------------------------------------------------------------
// operator: preferred ranges, roaming

func (w *slhWorld) reloadPreferred() {
	i := w.tp.Choose(len(w.nodes))
	nd := w.nodes[i]
	if !nd.alive {
		return
	}
	var pr []netip.Prefix
	var prs []any
	for _, c := range []string{"192.168.0.0/16", "2.0.0.0/8", "2001:db8::/32"} {
		if w.tp.Chance(1, 3) {
			pr = append(pr, netip.MustParsePrefix(c))
			prs = append(prs, c)
		}
	}
	spec := *nd.spec
	spec.extra = map[string]any{}
	deepMerge(spec.extra, nd.spec.extra)
	spec.extra["preferred_ranges"] = prs
	if err := nd.reload(spec.configYAML()); err != nil {
		w.rc.HarnessError("reload preferred_ranges: %v", err)
		return
	}
	nd.spec = &spec
	w.specs[i] = &spec
	w.pref[i] = pr
	w.stats["op.reload_preferred_ranges"]++
}

// dropLighthouse: a reload removes the lighthouse from a client's lighthouse.hosts; from then on nothing that
// host sends is lighthouse information for this client.
func (w *slhWorld) dropLighthouse() {
	i := 1 + w.tp.Choose(len(w.nodes)-1)
	nd := w.nodes[i]
	if !nd.alive || w.droppedLH[i] {
		return
	}
	spec := *nd.spec
	spec.lhHosts = nil
	spec.extra = map[string]any{}
	deepMerge(spec.extra, nd.spec.extra)
	deepMerge(spec.extra, map[string]any{"lighthouse": map[string]any{"hosts": []any{}}})
	if err := nd.reload(spec.configYAML()); err != nil {
		w.rc.HarnessError("reload lighthouse.hosts: %v", err)
		return
	}
	nd.spec = &spec
	w.specs[i] = &spec
	w.droppedLH[i] = true
	w.stats["op.reload_drop_lighthouse"]++
}

// roam: a multi-homed node starts sending from another of its addresses.
func (w *slhWorld) roam() {
	i := 1 + w.tp.Choose(len(w.nodes)-1)
	nd := w.nodes[i]
	if !nd.alive || len(nd.spec.altUDP) == 0 {
		return
	}
	all := append([]netip.AddrPort{nd.spec.udp}, nd.spec.altUDP...)
	nw := all[w.tp.Choose(len(all))]
	if nw == nd.conn.addr {
		return
	}
	// keep every address routable to the node: swap primary and alternative
	spec := *nd.spec
	spec.altUDP = nil
	for _, a := range all {
		if a != nw {
			spec.altUDP = append(spec.altUDP, a)
		}
	}
	nd.spec = &spec
	w.specs[i] = &spec
	nd.conn.addr = nw
	w.stats["fault.roam"]++
}

// ---------------------------------------------------------------------------
// C35: the byzantine certified peer

func lhDigest(n *simNode) string {
	var sb strings.Builder
	for _, l := range strings.Split(nodeDigest(n), "\n") {
		if strings.HasPrefix(l, "L ") {
			sb.WriteString(l)
			sb.WriteString("\n")
		}
	}
	return sb.String()
}

func fakeAddrs(tp *sk.Tape, target *simNode) ([]*V4AddrPort, []*V6AddrPort, []netip.AddrPort) {
	var v4 []*V4AddrPort
	var v6 []*V6AddrPort
	var all []netip.AddrPort
	k := 1 + tp.Choose(14) // sometimes more than ten
	// family mix: mixed / IPv6 only / public IPv4 only (a single family is what reaches the per-family cap)
	family := tp.Choose(4)
	for i := 0; i < k; i++ {
		var a netip.AddrPort
		kind := tp.Choose(7)
		switch family {
		case 1:
			kind = 3
		case 2:
			kind = 4
		}
		switch kind {
		case 5: // an IPv4 address dressed as IPv4-mapped IPv6 in the v6 list: the same filters must see through it
			v4 := [][4]byte{{10, 128, 0, byte(50 + tp.Choose(100))}, {2, 0, 0, byte(200 + tp.Choose(50))}, {192, 168, 7, byte(200 + tp.Choose(50))}}[tp.Choose(3)]
			a = netip.AddrPortFrom(netip.AddrFrom16([16]byte{0, 0, 0, 0, 0, 0, 0, 0, 0, 0, 0xff, 0xff, v4[0], v4[1], v4[2], v4[3]}), 4242)
		case 6: // the real underlay address of some node: whoever is dialled there for somebody else answers as itself
			a = underlayAddr(tp.Choose(5), 0)
		case 0: // inside the target's overlay range
			a = netip.AddrPortFrom(netip.AddrFrom4([4]byte{10, 128, 0, byte(50 + tp.Choose(100))}), 4242)
		case 1:
			a = netip.AddrPortFrom(netip.AddrFrom4([4]byte{2, 0, 0, byte(200 + tp.Choose(50))}), 4242)
		case 2:
			a = netip.AddrPortFrom(netip.AddrFrom4([4]byte{192, 168, 7, byte(200 + tp.Choose(50))}), 4242)
		case 3:
			// global, unique-local and link-local IPv6: one group in the candidate order (address, then port)
			pfx := [][4]byte{{0x20, 0x01, 0x0d, 0xb8}, {0xfd, 0, 0, 0}, {0xfe, 0x80, 0, 0}, {0x20, 0x01, 0x0d, 0xb8}}[tp.Choose(4)]
			a = netip.AddrPortFrom(netip.AddrFrom16([16]byte{pfx[0], pfx[1], pfx[2], pfx[3], 0, 0, 0, 0, 0, 0, 0, 0, 0, 0, 1, byte(tp.Choose(250))}), uint16(4242-tp.Choose(2)))
		default:
			a = netip.AddrPortFrom(netip.AddrFrom4([4]byte{198, 51, 100, byte(1 + tp.Choose(250))}), uint16(4000+tp.Choose(100)))
		}
		all = append(all, a)
		if a.Addr().Is4() {
			v4 = append(v4, netAddrToProtoV4AddrPort(a.Addr(), a.Port()))
		} else {
			v6 = append(v6, netAddrToProtoV6AddrPort(a.Addr(), a.Port()))
		}
	}
	return v4, v6, all
}

func (w *slhWorld) byzantineMessage() {
	tp := w.tp
	Z := w.nodes[w.byz]
	var targets []*simNode
	for _, nd := range w.nodes {
		if nd != Z && nd.alive {
			targets = append(targets, nd)
		}
	}
	if !Z.alive || len(targets) == 0 {
		return
	}
	T := targets[tp.Choose(len(targets))]
	hi := Z.f.hostMap.QueryVpnAddr(T.vpnAddr())
	if hi == nil || hi.ConnectionState == nil || matchedPeerTunnel(hi, T) == nil {
		// make sure a tunnel exists for next time
		Z.f.handshakeManager.StartHandshake(T.vpnAddr(), nil)
		return
	}
	typ := []NebulaMeta_MessageType{NebulaMeta_HostQuery, NebulaMeta_HostQueryReply, NebulaMeta_HostUpdateNotification, NebulaMeta_HostPunchNotification, NebulaMeta_HostUpdateNotificationAck, NebulaMeta_HostMovedNotification}[tp.Choose(6)]
	v4, v6, all := fakeAddrs(tp, T)
	// claimed owner
	var claimed netip.Addr
	switch tp.Choose(4) {
	case 0:
		claimed = Z.vpnAddr()
	case 1:
		claimed = T.vpnAddr()
	case 2:
		claimed = w.nodes[tp.Choose(len(w.nodes))].vpnAddr()
	case 3:
		claimed = netip.AddrFrom4([4]byte{10, 128, 0, byte(150 + tp.Choose(50))})
	}
	det := &NebulaMetaDetails{V4AddrPorts: v4, V6AddrPorts: v6}
	v1 := tp.Chance(1, 3) && claimed.Is4()
	plainOwner, wellFormed := true, true // exactly one owner field; decodes completely
	var msgRelays []netip.Addr
	switch {
	case tp.Chance(1, 8):
		// no owner field at all
		plainOwner = false
	case v1:
		b := claimed.As4()
		det.OldVpnAddr = binary.BigEndian.Uint32(b[:])
	default:
		det.VpnAddr = netAddrToProtoAddr(claimed)
	}
	if tp.Chance(1, 6) && claimed.Is4() && Z.vpnAddr().Is4() {
		// both owner fields at once, one naming the sender itself and the other the claimed owner
		own := Z.vpnAddr().As4()
		cl := claimed.As4()
		if tp.Chance(1, 2) {
			det.OldVpnAddr, det.VpnAddr = binary.BigEndian.Uint32(own[:]), netAddrToProtoAddr(claimed)
		} else {
			det.OldVpnAddr, det.VpnAddr = binary.BigEndian.Uint32(cl[:]), netAddrToProtoAddr(Z.vpnAddr())
		}
		w.stats["fault.byzantine.both-owner-fields"]++
		plainOwner = false
	}
	if tp.Chance(1, 2) {
		r := w.nodes[tp.Choose(len(w.nodes))].vpnAddr()
		msgRelays = append(msgRelays, r)
		if v1 {
			b := r.As4()
			det.OldRelayVpnAddrs = append(det.OldRelayVpnAddrs, binary.BigEndian.Uint32(b[:]))
		} else {
			det.RelayVpnAddrs = append(det.RelayVpnAddrs, netAddrToProtoAddr(r))
		}
	}
	msg := &NebulaMeta{Type: typ, Details: det}
	if tp.Chance(1, 12) {
		msg.Details = nil
		wellFormed = false
	}
	b, err := msg.Marshal()
	if err != nil {
		return
	}
	if tp.Chance(1, 7) && len(b) > 6 {
		// malformed on the wire: the decoder gets through part of the message and then fails (cut short, trailing
		// garbage, a corrupted length). Nothing of it may be acted on — not now and not as residue in the next message.
		switch tp.Choose(3) {
		case 0:
			b = b[:len(b)-1-tp.Choose(3)]
		case 1:
			b = append(b, 0xff, 0xff, 0xff)
		case 2:
			b[len(b)-1-tp.Choose(len(b)/3)] ^= 0x80
		}
		w.stats["fault.byzantine.malformed"]++
		wellFormed = false
	}
	// let whatever the target had queued before this message (punches scheduled by earlier, authorized lighthouse
	// messages; a stalled node has not run its workers) go out first, so that what follows the probe is the probe's
	w.pump()
	time.Sleep(100 * time.Millisecond)
	synctest.Wait()
	w.AddSimTimeAndNow(100 * time.Millisecond)
	T.drainChannels()
	w.pump()
	// a harmless authenticated packet first, so that any roaming of the sender's underlay address is
	// already settled when the snapshot is taken
	nPre := len(Z.conn.out)
	Z.f.SendMessageToHostInfo(header.Test, header.TestReply, hi, []byte("x"), make([]byte, 12), make([]byte, mtu))
	pre := append([]*simDatagram(nil), Z.conn.out[nPre:]...)
	Z.conn.out = Z.conn.out[:nPre]
	T.recvBatch(pre)
	nOut := len(Z.conn.out)
	Z.f.SendMessageToHostInfo(header.LightHouse, 0, hi, b, make([]byte, 12), make([]byte, mtu))
	sent := append([]*simDatagram(nil), Z.conn.out[nOut:]...)
	Z.conn.out = Z.conn.out[:nOut]
	if len(sent) != 1 {
		return
	}
	w.stats["fault.byzantine_message"]++
	w.stats["fault.byzantine."+typ.String()]++
	w.pump()
	isLH := T.f.lightHouse.amLighthouse
	// configuration truth: node 0 is the only lighthouse, and a client that dropped it from lighthouse.hosts has none
	zIsLHofT := Z.idx == 0 && T.idx != 0 && !w.droppedLH[T.idx]
	before := lhDigest(T)
	nc := len(T.conn.out)
	T.recvBatch(sent)
	// the message handler is synchronous: its effect on the cache is visible now, before any of the
	// node's own unrelated work runs
	after := lhDigest(T)
	// punches are scheduled with punchy.delay / respond_delay: let those timers fire
	time.Sleep(100 * time.Millisecond)
	synctest.Wait()
	w.AddSimTimeAndNow(100 * time.Millisecond)
	T.drainChannels()
	replies := T.conn.out[nc:]
	desc := fmt.Sprintf("%s (claimed owner %v, encoding v%d, %d addresses) from peer %v to node %d (lighthouse=%v, sender is one of its lighthouses=%v)", typ, claimed, map[bool]int{true: 1, false: 2}[v1], len(all), Z.f.myVpnAddrs, T.idx, isLH, zIsLHofT)
	w.rc.Logf("t=%v byzantine %s", w.now, desc)
	// any punch toward one of the fake addresses?
	// (only punch-shaped datagrams, and only toward addresses the node did not already hold for some peer before the
	// message: the small fake-address pools make a later message name an address that an earlier, authorized one
	// legitimately taught the node, and punches queued by that earlier message may fire in this window)
	punched := false
	for _, d := range replies {
		if len(d.data) == 1 && slices.Contains(all, d.to) && !strings.Contains(before, d.to.String()) {
			punched = true
		}
	}
	changed := before != after
	switch {
	case isLH:
		// only the sender's own entry, only its own owner slot. A lighthouse that lists the sender as its own
		// (upstream) lighthouse also takes query answers from it: those may touch any entry, but still only the slot
		// filed under the sender's name — never the slot holding what the described host reported itself, which is
		// what this lighthouse serves.
		upstreamReply := zIsLHofT && typ == NebulaMeta_HostQueryReply
		if upstreamReply {
			w.stats["probe.upstream_reply_to_lighthouse"]++
		}
		if zIsLHofT && typ == NebulaMeta_HostPunchNotification {
			punched = false
		}
		if changed {
			if bad := foreignChange(before, after, Z.f.myVpnAddrs, upstreamReply); bad != "" {
				w.fail("C35", "foreign-entry-changed", "%s changed lighthouse state outside the sender's own entry:\n%s", desc, bad)
				return
			}
		}
		if punched {
			w.fail("C35", "lighthouse-punched", "%s made the lighthouse send to an address named in the message", desc)
			return
		}
		if typ == NebulaMeta_HostUpdateNotification && wellFormed && plainOwner && slices.Contains(Z.f.myVpnAddrs, claimed) {
			// an update of the sender's own entry: what the lighthouse now holds as that owner's relays is exactly what
			// this message listed (none included: an update without relays withdraws the ones reported before)
			var got []netip.Addr
			lh := T.f.lightHouse
			lh.RLock()
			rl := lh.addrMap[claimed]
			lh.RUnlock()
			if rl != nil {
				rl.RLock()
				if c := rl.cache[Z.f.myVpnAddrs[0]]; c != nil && c.relay != nil {
					got = slices.Clone(c.relay.relay)
				}
				rl.RUnlock()
			}
			w.stats["probe.own_update_relays_checked"]++
			if !slices.Equal(got, msgRelays) && !(len(got) == 0 && len(msgRelays) == 0) {
				w.fail("C37", "reported-relays-not-replaced", "%s listed relays %v; the lighthouse's entry for the sender now holds %v as reported by it", desc, msgRelays, got)
				return
			}
		}
	default:
		authorized := zIsLHofT && (typ == NebulaMeta_HostQueryReply || typ == NebulaMeta_HostPunchNotification)
		if !authorized {
			if changed {
				w.fail("C35", "unauthorized-message-changed-state", "%s changed the node's lighthouse cache:\n%s", desc, firstDiff(before, after))
				return
			}
			if punched {
				w.fail("C35", "unauthorized-punch", "%s made the node punch toward an address named in the message", desc)
				return
			}
			for _, d := range replies {
				var h header.H
				if err := h.Parse(d.data); err == nil && h.Type == header.LightHouse && d.to == Z.conn.addr {
					w.fail("C35", "non-lighthouse-answered", "%s was answered with a lighthouse message", desc)
					return
				}
			}
		}
	}
	if typ == NebulaMeta_HostQuery && !isLH {
		for _, d := range replies {
			var h header.H
			if err := h.Parse(d.data); err == nil && h.Type == header.LightHouse && d.to == Z.conn.addr {
				w.fail("C35", "non-lighthouse-answered-query", "%s: a node that is not a lighthouse answered a query", desc)
				return
			}
		}
	}
}

// AddSimTimeAndNow keeps the world's notion of time in step after the harness slept by itself.
func (w *slhWorld) AddSimTimeAndNow(d time.Duration) {
	w.now += d
	w.rc.AddSimTime(d)
}

// foreignChange returns a description of a lighthouse cache change that is not
// confined to the entries/owner slot of addrs.
func foreignChange(before, after string, own []netip.Addr, anyEntry bool) string {
	parse := func(s string) map[string]string {
		m := map[string]string{}
		for _, l := range strings.Split(s, "\n") {
			f := strings.SplitN(l, " ", 3)
			if len(f) == 3 {
				m[f[1]] = f[2]
			}
		}
		return m
	}
	b, a := parse(before), parse(after)
	keys := map[string]bool{}
	for k := range b {
		keys[k] = true
	}
	for k := range a {
		keys[k] = true
	}
	var ks []string
	for k := range keys {
		ks = append(ks, k)
	}
	sort.Strings(ks)
	for _, k := range ks {
		if b[k] == a[k] {
			continue
		}
		mine := false
		for _, o := range own {
			if k == o.String() {
				mine = true
			}
		}
		if !mine && !anyEntry {
			return fmt.Sprintf("entry %s\nbefore: %s\nafter:  %s", k, b[k], a[k])
		}
		// inside the own entry only the own owner slot may differ: compare with the own slot removed
		strip := func(s string) string {
			for _, o := range own {
				key := fmt.Sprintf("%q:", o.String())
				if i := strings.Index(s, key); i >= 0 {
					depth, j := 0, i+len(key)
					for ; j < len(s); j++ {
						if s[j] == '{' {
							depth++
						}
						if s[j] == '}' {
							depth--
							if depth == 0 {
								j++
								break
							}
						}
					}
					s = s[:i] + s[j:]
				}
			}
			// the removed slot leaves its separator behind
			s = strings.ReplaceAll(s, "{,", "{")
			s = strings.ReplaceAll(s, ",}", "}")
			s = strings.ReplaceAll(s, ",,", ",")
			return s
		}
		// an entry that did not exist before equals an empty one: creating one's own entry with only one's own
		// slot in it touches nobody else (thorough-tier false alarm, corrected)
		norm := func(s string) string {
			if s == "" {
				return "{} bad=[]"
			}
			return strip(s)
		}
		if norm(b[k]) != norm(a[k]) {
			return fmt.Sprintf("entry %s, slot of another source\nbefore: %s\nafter:  %s", k, b[k], a[k])
		}
	}
	return ""
}

var _ = cert.Version1

package nebula

// C31 — concurrent handshakes converge to one working tunnel. Engine A: two
// nodes (optionally discovering each other through a lighthouse) start
// handshakes toward each other at tape-chosen offsets, and later rehandshake
// concurrently against the existing tunnel; the four handshake messages and the
// data behind them are dropped, duplicated and reordered; connection-manager
// ticks interleave; one side may restart.

import (
	"fmt"
	"net/netip"
	"os"
	"time"

	sk "github.com/slackhq/nebula/internal/verifsimkit"
)

// c31BudgetUnits: the quiet-suffix budget is this many (alive+pending_deletion)
// intervals plus 10 s. Calibrated on the unchanged tree (VERIF_C31_CALIB=1): see DESIGN.md.
const c31BudgetUnits = 27 // 3 x the slowest convergence (9 units) seen over 3008 calibration runs

func init() {
	sk.Register("C31.race", sk.Scenario{Run: runC31})
}

// matchedPeerTunnel returns the tunnel at b that is the other end of ha (index
// cross-match and key match), or nil.
func matchedPeerTunnel(ha *HostInfo, b *simNode) *HostInfo {
	if ha == nil || ha.ConnectionState == nil {
		return nil
	}
	hb := b.f.hostMap.QueryIndex(ha.remoteIndexId)
	if hb == nil || hb.ConnectionState == nil || hb.remoteIndexId != ha.localIndexId {
		return nil
	}
	if !sessionsMatch(ha, hb) || !sessionsMatch(hb, ha) {
		return nil
	}
	return hb
}

func runC31(rc *sk.RunCtx) {
	tp := rc.Tape
	alive := []int{1, 2, 3}[tp.Choose(3)]
	pendDel := []int{1, 2, 4}[tp.Choose(3)]
	mw := buildMesh(rc, meshOpts{minNodes: 2, maxNodes: 3, allowLighthouse: true, allowV1: true,
		extra: func(i int, s *nodeSpec) {
			deepMerge(s.extra, map[string]any{"timers": map[string]any{"connection_alive_interval": alive, "pending_deletion_interval": pendDel}})
		}})
	if rc.Failed() {
		return
	}
	defer mw.stopAll()
	n := len(mw.nodes)
	ia, ib := n-2, n-1
	if n == 3 && !mw.useLH {
		ia, ib = tp.Choose(2), 2
	}
	A := func() *simNode { return mw.nodes[ia] }
	B := func() *simNode { return mw.nodes[ib] }
	addrA, addrB := A().vpnAddr(), B().vpnAddr()
	try := 100 * time.Millisecond

	// (ii) swap decisions, observed around every connection-manager traffic check
	swappers := map[int]bool{}
	mw.onTrafficCheck = func(nd *simNode, li uint32, now time.Time, run func()) {
		if nd.idx != ia && nd.idx != ib {
			run()
			return
		}
		peer := addrB
		if nd.idx == ib {
			peer = addrA
		}
		before := nd.f.hostMap.QueryVpnAddr(peer)
		run()
		after := nd.f.hostMap.QueryVpnAddr(peer)
		if before != nil && after != nil && before != after {
			// a swap decision: both tunnels still exist, only their order changed
			if nd.f.hostMap.QueryIndex(before.localIndexId) == before {
				swappers[nd.idx] = true
				rc.Count("probe.primary_swap", 1)
				if len(swappers) > 1 {
					rc.Fail("both-swapped", "both nodes (%d and %d) decided to swap their primary tunnel during connection-manager checks", ia, ib)
				}
			}
		}
	}

	bothPending, bothInFlight := false, false
	probes, probesOK := 0, 0
	// (i) traffic flows on a session that is complete at both ends
	probe := func(from, to *simNode, peerAddr netip.Addr) bool {
		prim := from.f.hostMap.QueryVpnAddr(peerAddr)
		if prim == nil || matchedPeerTunnel(prim, to) == nil {
			return true // not complete at both ends (yet): nothing to demand
		}
		if mw.now < from.stallEnd || mw.now < to.stallEnd {
			return true
		}
		mw.pump()
		probes++
		mw.nextID++
		id := mw.nextID
		pkt := simUDP(from.vpnAddr(), to.vpnAddr(), 7000, 7001, markerPayload(id, 0))
		nOut := len(from.conn.out)
		from.sendInside(pkt)
		sent := append([]*simDatagram(nil), from.conn.out[nOut:]...)
		from.conn.out = from.conn.out[:nOut]
		nt := len(to.tun.out)
		to.recvBatch(sent)
		got := false
		for _, p := range to.tun.out[nt:] {
			if _, _, _, _, pl, ok := simParseUDP(p); ok {
				if pid, ok := parseMarker(pl); ok && pid == id {
					got = true
				}
			}
		}
		to.tun.out = to.tun.out[:nt]
		if !got {
			rc.Fail("no-traffic-on-complete-session", "t=%v: node %d's primary tunnel for node %d (local %d, remote %d) is complete and held at both ends, but a packet sent on it was not delivered (%d datagrams emitted)", mw.now, from.idx, to.idx, prim.localIndexId, prim.remoteIndexId, len(sent))
			return false
		}
		probesOK++
		return true
	}
	mw.afterEvent = func(name string) {
		a, b := A(), B()
		if !a.alive || !b.alive {
			return
		}
		pa := a.f.handshakeManager.QueryVpnAddr(addrB) != nil
		pb := b.f.handshakeManager.QueryVpnAddr(addrA) != nil
		if pa && pb {
			bothPending = true
		}
		if mw.steps%5 == 0 {
			if !probe(a, b, addrB) {
				return
			}
			probe(b, a, addrA)
			rc.State(mw.abstractState())
		}
	}
	// watch the wire for two stage-1 messages crossing
	lastStage1 := map[int]time.Duration{}
	mw.onWire = func(from *simNode, d *simDatagram) {
		if len(d.data) > 16 && d.data[0]&0x0f == 0 && d.data[15] == 1 { // handshake, counter 1
			lastStage1[from.idx] = mw.now
			o := ib
			if from.idx == ib {
				o = ia
			}
			if t, ok := lastStage1[o]; ok && mw.now-t < 30*time.Millisecond && (from.idx == ia || from.idx == ib) {
				bothInFlight = true
			}
		}
	}

	// phase 1: both sides start handshakes at chosen offsets
	t0 := time.Duration(200+tp.Choose(800)) * time.Millisecond
	delta := time.Duration(tp.Choose(int(try/time.Millisecond)+20)) * time.Millisecond
	if tp.Chance(1, 2) {
		delta = time.Duration(tp.Choose(8)) * time.Millisecond // near-simultaneous
	}
	mw.at(t0, "app A->B", func() { mw.appSend(ia, ib, 0) })
	mw.at(t0+delta, "app B->A", func() { mw.appSend(ib, ia, 0) })
	horizon := t0 + time.Duration(6+tp.Choose(10))*time.Second
	// some more traffic while the race resolves
	for k := 0; k < 10+tp.Choose(30); k++ {
		at := t0 + time.Duration(tp.Choose(int((horizon-t0)/time.Millisecond)))*time.Millisecond
		dir := tp.Choose(2)
		mw.at(at, "app", func() {
			if dir == 0 {
				mw.appSend(ia, ib, 0)
			} else {
				mw.appSend(ib, ia, 0)
			}
		})
	}
	// phase 2: concurrent rehandshakes against the existing tunnel, optional restart
	rounds := tp.Choose(4)
	for r := 0; r < rounds; r++ {
		at := t0 + time.Second + time.Duration(tp.Choose(int((horizon-t0)/time.Millisecond)))*time.Millisecond
		d2 := time.Duration(tp.Choose(60)) * time.Millisecond
		mw.at(at, "rehandshake A", func() { mw.opRehandshake(ia, ib) })
		mw.at(at+d2, "rehandshake B", func() { mw.opRehandshake(ib, ia) })
		horizon = max(horizon, at+3*time.Second)
	}
	restarted := false
	if tp.Chance(1, 4) {
		at := t0 + time.Duration(tp.Choose(int((horizon-t0)/time.Millisecond)))*time.Millisecond
		who := []int{ia, ib}[tp.Choose(2)]
		mw.at(at, "restart", func() { mw.opRestart(who, nil) })
		restarted = true
	}
	mw.runUntil(horizon)
	if rc.Failed() {
		return
	}

	// (iii) quiet suffix: faults off, pings both ways; then exactly one matching tunnel per side
	mw.quiet = true
	budget := time.Duration(c31BudgetUnits*(alive+pendDel)+10) * time.Second
	calib := os.Getenv("VERIF_C31_CALIB") != ""
	if calib {
		budget = time.Duration(60*(alive+pendDel)) * time.Second
	}
	end := horizon + budget
	lastGot := map[int]time.Duration{}
	baseTun := mw.onTun
	mw.onTun = func(nd *simNode, pkt []byte) {
		baseTun(nd, pkt)
		lastGot[nd.idx] = mw.now
	}
	if calib {
		// calibration aid (not part of the check): when did the pair last look unconverged?
		lastBad := horizon
		prevAfter := mw.afterEvent
		mw.afterEvent = func(name string) {
			prevAfter(name)
			la, lb := tunnelsFor(A(), addrB), tunnelsFor(B(), addrA)
			if len(la) != 1 || len(lb) != 1 || la[0].remoteIndexId != lb[0].localIndexId || lb[0].remoteIndexId != la[0].localIndexId {
				lastBad = mw.now
			}
		}
		defer func() {
			units := int((lastBad-horizon)/time.Second) / (alive + pendDel)
			rc.Count(fmt.Sprintf("calib.converged_within_%02d_units", units+1), 1)
		}()
	}
	for t := horizon; t < end; t += 700 * time.Millisecond {
		mw.at(t, "ping", func() { mw.appSend(ia, ib, 0); mw.appSend(ib, ia, 0) })
	}
	mw.runUntil(end)
	if rc.Failed() {
		return
	}
	a, b := A(), B()
	la := tunnelsFor(a, addrB)
	lb := tunnelsFor(b, addrA)
	describe := func() string {
		return fmt.Sprintf("node %d holds %v for %v, node %d holds %v for %v (alive=%ds pending_deletion=%ds quiet=%v restarted=%v)", ia, idxPairs(la), addrB, ib, idxPairs(lb), addrA, alive, pendDel, budget, restarted)
	}
	switch {
	case len(la) != 1 || len(lb) != 1:
		rc.Fail("not-single-tunnel", "after %v of quiet network with pings: %s", budget, describe())
	case la[0].remoteIndexId != lb[0].localIndexId || lb[0].remoteIndexId != la[0].localIndexId:
		rc.Fail("indexes-do-not-match", "after %v of quiet network: %s", budget, describe())
	case end-lastGot[ia] > 2*time.Second || end-lastGot[ib] > 2*time.Second:
		rc.Fail("pings-do-not-flow", "after %v of quiet network the last ping arrived at node %d %v ago and at node %d %v ago: %s", budget, ia, end-lastGot[ia], ib, end-lastGot[ib], describe())
	}
	if bothPending {
		rc.Count("probe.both_pending_at_once", 1)
	}
	if bothInFlight {
		rc.Count("probe.both_stage1_in_flight", 1)
	}
	rc.Count("probe.traffic_probes", int64(probes))
	rc.TraceQuiet(fmt.Sprintf("bp=%v bf=%v sw=%d r=%d rs=%v", bothPending, bothInFlight, len(swappers), rounds, restarted))
	if bothPending || bothInFlight {
		rc.Nontrivial()
	}
	rc.Sample(map[string]any{"nodes": n, "lighthouse": mw.useLH, "start_offset": delta.String(), "rehandshake_rounds": rounds, "restart": restarted,
		"both_handshakes_pending_at_once": bothPending, "stage1_messages_crossed": bothInFlight, "swap_decisions_by_nodes": len(swappers), "traffic_probes": probes,
		"alive_interval_s": alive, "pending_deletion_s": pendDel})
}

// tunnelsFor lists the tunnels a node holds for a peer address (primary first).
func tunnelsFor(n *simNode, a netip.Addr) []*HostInfo {
	hm := n.f.hostMap
	hm.RLock()
	defer hm.RUnlock()
	return append([]*HostInfo(nil), hm.unlockedGetHostList(a)...)
}

func idxPairs(l []*HostInfo) []string {
	var o []string
	for _, h := range l {
		o = append(o, fmt.Sprintf("%d>%d", h.localIndexId, h.remoteIndexId))
	}
	return o
}

package nebula

// C01 — certificate acceptance equals the documented trust rule. What the
// simulation decides is the part that depends on time and trust-state history:
// a node V whose clock is stepped across the validity boundaries of CAs and
// leaf certificates, whose trust bundle and blocklist change by real reloads,
// and that is asked to accept handshakes from generated identities in between.
// Per run the tape draws 1-3 test CAs (v1/v2, unconstrained or constrained in
// groups / networks / unsafe networks, valid / expiring / not yet valid) and up
// to 8 leaves inside and outside each constraint. Constraint- and
// window-violating leaves carry a genuine CA signature: they are produced
// through the public signing API with a signer wrapper that hides the CA's
// constraints (so the issuer fingerprint is the real CA's). P-256 leaves also
// exist in their high-S twin form, and blocklists name either form.
//
// Oracle: an independent reference of the statement, evaluated on facts known
// by construction. (1) CAPool.VerifyCertificate(now) on V's live pool equals
// the reference for every leaf at every step; (2) a real first handshake
// message from the leaf installs a tunnel at V iff the reference accepts now;
// (3) for every certificate accepted earlier, VerifyCachedCertificate(now)
// gives the verdict of a full VerifyCertificate(now) on the same pool.

import (
	"bytes"
	"errors"
	"fmt"
	"net/netip"
	"slices"
	"sort"
	"time"

	"github.com/slackhq/nebula/cert"
	"github.com/slackhq/nebula/cert/p256"
	"github.com/slackhq/nebula/cert_test"
	"github.com/slackhq/nebula/handshake"
	"github.com/slackhq/nebula/header"
	sk "github.com/slackhq/nebula/internal/verifsimkit"
)

func init() {
	sk.Register("C01.trust", sk.Scenario{Run: runC01})
}

// laxSigner hides a CA's constraints from the signing API while keeping its
// identity (fingerprint, key): the result is a leaf with a genuine signature of
// that CA that violates the CA's constraints.
type laxSigner struct {
	cert.Certificate
	curve cert.Curve
}

func (l laxSigner) Groups() []string              { return nil }
func (l laxSigner) Networks() []netip.Prefix      { return nil }
func (l laxSigner) UnsafeNetworks() []netip.Prefix { return nil }
func (l laxSigner) NotBefore() time.Time          { return time.Unix(0, 0) }
func (l laxSigner) NotAfter() time.Time           { return time.Unix(1<<40, 0) }
func (l laxSigner) Curve() cert.Curve             { return l.curve }

type c01CA struct {
	ca       *simCA
	nb, na   time.Time
	groups   []string
	nets     []netip.Prefix
	unsafe   []netip.Prefix
	inPool   bool
	name     string
	curve    cert.Curve
}

type c01Leaf struct {
	name     string
	crt      cert.Certificate
	priv     []byte
	ca       *c01CA
	nb, na   time.Time
	groups   []string
	nets     []netip.Prefix
	unsafe   []netip.Prefix
	sigOK    bool
	fp, fp2  string // fingerprint and (P-256) twin fingerprint
	cached   *cert.CachedCertificate
	kind     string
}

func prefixInside(p netip.Prefix, set []netip.Prefix) bool {
	for _, s := range set {
		if s.Contains(p.Addr()) && s.Bits() <= p.Bits() {
			return true
		}
	}
	return false
}

// refAccept is the statement of C01.
func refAccept(l *c01Leaf, t time.Time, blocked map[string]bool) (bool, string) {
	switch {
	case blocked[l.fp] || (l.fp2 != "" && blocked[l.fp2]):
		return false, "blocklisted"
	case !l.ca.inPool:
		return false, "issuer not trusted"
	case l.ca.curve != l.crt.Curve():
		return false, "curve differs from issuer"
	case t.Before(l.ca.nb) || t.After(l.ca.na):
		return false, "issuer not valid now"
	case t.Before(l.nb) || t.After(l.na):
		return false, "certificate not valid now"
	case !l.sigOK:
		return false, "signature does not verify"
	case l.na.After(l.ca.na) || l.nb.Before(l.ca.nb):
		return false, "outside the issuer's validity window"
	}
	if len(l.ca.groups) > 0 {
		for _, g := range l.groups {
			if !slices.Contains(l.ca.groups, g) {
				return false, "group not allowed by issuer"
			}
		}
	}
	if len(l.ca.nets) > 0 {
		for _, n := range l.nets {
			if !prefixInside(n, l.ca.nets) {
				return false, "network outside issuer's ranges"
			}
		}
	}
	if len(l.ca.unsafe) > 0 {
		for _, n := range l.unsafe {
			if !prefixInside(n, l.ca.unsafe) {
				return false, "unsafe network outside issuer's ranges"
			}
		}
	}
	return true, "ok"
}

func runC01(rc *sk.RunCtx) {
	tp := rc.Tape
	sw := newSimWorld(rc)
	defer sw.stopAll()
	sw.faults.baseLatency = time.Millisecond
	sw.maxSteps = 2_000_000
	sw.softBudget = true
	now := time.Now()
	sec := func(s int) time.Time { return time.Unix(now.Add(time.Duration(s)*time.Second).Unix(), 0) }
	curve := cert.Curve_CURVE25519
	if tp.Chance(1, 3) {
		curve = cert.Curve_P256
	}
	// V's own CA: always valid, always trusted
	caV := newSimCA(cert.Version2, curve, "ca-v", now.Add(-time.Hour), now.Add(100000*time.Hour), nil, nil, nil)
	vNets := []netip.Prefix{netip.MustParsePrefix("10.128.0.1/24")}
	vid := newSimIdentity(caV, []cert.Version{cert.Version2}, "victim", now.Add(-time.Hour), now.Add(90000*time.Hour), vNets, nil, nil)

	// test CAs
	var cas []*c01CA
	nca := 1 + tp.Choose(3)
	for i := 0; i < nca; i++ {
		c := &c01CA{name: fmt.Sprintf("ca%d", i), inPool: true, curve: curve}
		v := cert.Version2
		if tp.Chance(1, 3) {
			v = cert.Version1
		}
		switch tp.Choose(4) {
		case 0: // long lived
			c.nb, c.na = sec(-3600), sec(100000)
		case 1: // expires during the run
			c.nb, c.na = sec(-3600), sec(20+tp.Choose(200))
		case 2: // becomes valid during the run
			c.nb, c.na = sec(10+tp.Choose(100)), sec(100000)
		case 3: // short window
			a := 10 + tp.Choose(100)
			c.nb, c.na = sec(a), sec(a+10+tp.Choose(100))
		}
		if tp.Chance(1, 2) {
			c.groups = []string{"ops", "dev"}
		}
		if tp.Chance(1, 2) {
			// one range, nested ranges in either order, disjoint ranges
			c.nets = [][]netip.Prefix{
				{netip.MustParsePrefix("10.128.0.0/16")},
				{netip.MustParsePrefix("10.128.0.0/24"), netip.MustParsePrefix("10.128.0.0/16")},
				{netip.MustParsePrefix("10.128.0.0/16"), netip.MustParsePrefix("10.128.0.0/24")},
				{netip.MustParsePrefix("10.200.0.0/16"), netip.MustParsePrefix("10.128.0.0/16")},
			}[tp.Choose(4)]
		}
		if tp.Chance(1, 2) {
			c.unsafe = [][]netip.Prefix{
				{netip.MustParsePrefix("172.16.0.0/12")},
				{netip.MustParsePrefix("172.20.0.0/24"), netip.MustParsePrefix("172.16.0.0/12")},
				{netip.MustParsePrefix("172.16.0.0/12"), netip.MustParsePrefix("192.168.0.0/16")},
			}[tp.Choose(3)]
		}
		c.ca = newSimCA(v, curve, c.name, c.nb, c.na, c.nets, c.unsafe, c.groups)
		cas = append(cas, c)
	}
	// leaves
	var leaves []*c01Leaf
	nleaf := 2 + tp.Choose(7)
	for i := 0; i < nleaf; i++ {
		ca := cas[tp.Choose(len(cas))]
		l := &c01Leaf{name: fmt.Sprintf("leaf%d", i), ca: ca, sigOK: true}
		// validity: inside / sticking out of the CA window / expiring / not yet valid
		switch tp.Choose(6) {
		case 0, 1:
			l.nb, l.na = ca.nb, ca.na
		case 2:
			l.nb, l.na = ca.nb, time.Unix(ca.na.Unix()+int64(1+tp.Choose(100)), 0)
			l.kind = "after-issuer-window"
		case 3:
			l.nb, l.na = time.Unix(ca.nb.Unix()-int64(1+tp.Choose(100)), 0), ca.na
			l.kind = "before-issuer-window"
		case 4:
			l.nb, l.na = ca.nb, time.Unix(min(ca.na.Unix(), sec(15+tp.Choose(150)).Unix()), 0)
			l.kind = "expiring"
		case 5:
			l.nb, l.na = time.Unix(max(ca.nb.Unix(), sec(15+tp.Choose(150)).Unix()), 0), ca.na
			l.kind = "not-yet-valid"
		}
		if !l.na.After(l.nb) {
			l.nb, l.na = ca.nb, ca.na
		}
		// groups / networks / unsafe networks inside or outside the constraints
		l.groups = [][]string{nil, {"ops"}, {"ops", "dev"}, {"ops", "admin"}, {"root"}}[tp.Choose(5)]
		host := byte(10 + i)
		l.nets = [][]netip.Prefix{
			{netip.PrefixFrom(netip.AddrFrom4([4]byte{10, 128, 0, host}), 24)},
			{netip.PrefixFrom(netip.AddrFrom4([4]byte{10, 128, 7, host}), 24)},
			{netip.PrefixFrom(netip.AddrFrom4([4]byte{10, 200, 0, host}), 24)},
			{netip.PrefixFrom(netip.AddrFrom4([4]byte{10, 128, 0, host}), 8)},
			{netip.PrefixFrom(netip.AddrFrom4([4]byte{10, 128, 0, host}), 20)}, // fits a /16 range but not a nested /24
			{netip.PrefixFrom(netip.AddrFrom4([4]byte{10, 128, 0, host}), 24), netip.PrefixFrom(netip.AddrFrom4([4]byte{10, 200, 3, host}), 24)},
		}[tp.Choose(6)]
		switch tp.Choose(4) {
		case 1:
			l.unsafe = []netip.Prefix{netip.MustParsePrefix("172.20.0.0/16")}
		case 2:
			l.unsafe = []netip.Prefix{netip.MustParsePrefix("192.168.0.0/16")}
		case 3:
			l.unsafe = []netip.Prefix{netip.MustParsePrefix("172.0.0.0/8")}
		}
		var pub, priv []byte
		if curve == cert.Curve_P256 {
			pub, priv = cert_test.P256Keypair()
		} else {
			pub, priv = cert_test.X25519Keypair()
		}
		l.priv = priv
		v := ca.ca.crt.Version()
		if tp.Chance(1, 3) {
			if v == cert.Version1 {
				v = cert.Version2
			} else {
				v = cert.Version1
			}
		}
		tbs := &cert.TBSCertificate{Version: v, Curve: curve, Name: l.name, Networks: l.nets, UnsafeNetworks: l.unsafe, Groups: l.groups,
			NotBefore: l.nb, NotAfter: l.na, PublicKey: pub}
		c, err := tbs.Sign(laxSigner{ca.ca.crt, curve}, curve, ca.ca.key)
		if err != nil {
			rc.HarnessError("forging %s: %v", l.name, err)
			return
		}
		l.crt = c
		// signature variants
		switch tp.Choose(5) {
		case 0: // broken signature
			if nc, ok := resign(c, pub, curve, func(sig []byte) []byte { s := slices.Clone(sig); s[len(s)/2] ^= 0x10; return s }); ok {
				l.crt, l.sigOK, l.kind = nc, false, l.kind+"+bad-signature"
			}
		case 1: // P-256 high-S twin
			if curve == cert.Curve_P256 {
				if nc, ok := resign(c, pub, curve, func(sig []byte) []byte { t, _ := p256.Swap(sig); return t }); ok {
					l.crt, l.kind = nc, l.kind+"+twin-signature"
				}
			}
		}
		l.fp, _ = l.crt.Fingerprint()
		// the twin's fingerprint is taken from the twin certificate itself (the same certificate carrying the other
		// of the two equivalent P-256 signatures), not from the implementation's alternate-fingerprint helper
		if curve == cert.Curve_P256 {
			if tw, ok := resign(l.crt, pub, curve, func(sig []byte) []byte { t, _ := p256.Swap(sig); return t }); ok {
				l.fp2, _ = tw.Fingerprint()
			}
		}
		leaves = append(leaves, l)
	}

	// V
	blocked := map[string]bool{}
	buildTrust := func() {
		vid.trust = []*simCA{caV}
		for _, c := range cas {
			if c.inPool {
				vid.trust = append(vid.trust, c.ca)
			}
		}
	}
	buildTrust()
	vspec := &nodeSpec{name: "victim", nets: vNets, udp: underlayAddr(0, 0), id: vid, static: map[string][]string{}}
	cfgExtra := func() map[string]any {
		var bl []any
		for fp := range blocked {
			bl = append(bl, fp)
		}
		sort.Slice(bl, func(i, j int) bool { return bl[i].(string) < bl[j].(string) })
		if bl == nil {
			bl = []any{}
		}
		return map[string]any{"pki": map[string]any{"blocklist": bl, "disconnect_invalid": false}, "punchy": map[string]any{"punch": false, "respond": false}}
	}
	vspec.extra = cfgExtra()
	V := sw.addNode(vspec)
	if V == nil {
		return
	}
	rc.Trace("C01 curve=%v cas=%d leaves=%d", curve, nca, nleaf)
	for _, c := range cas {
		rc.Logf("CA %s v%d window=[%d,%d] groups=%v nets=%v unsafe=%v", c.name, c.ca.crt.Version(), c.nb.Unix()-now.Unix(), c.na.Unix()-now.Unix(), c.groups, c.nets, c.unsafe)
	}
	for _, l := range leaves {
		rc.Logf("leaf %s v%d issuer=%s window=[%d,%d] groups=%v nets=%v unsafe=%v kind=%s", l.name, l.crt.Version(), l.ca.name, l.nb.Unix()-now.Unix(), l.na.Unix()-now.Unix(), l.groups, l.nets, l.unsafe, l.kind)
	}
	stats := map[string]int{}
	suite, err := newCipherSuite(curve, false, "aes", false)
	if err != nil {
		rc.HarnessError("cipher suite: %v", err)
		return
	}

	checkAll := func(when string) bool {
		t := time.Now()
		pool := V.f.pki.GetCAPool()
		for _, l := range leaves {
			want, why := refAccept(l, t, blocked)
			cc, err := pool.VerifyCertificate(t, l.crt)
			stats["probe.verify_calls"]++
			if want {
				stats["probe.reference_accepts"]++
			} else {
				stats["probe.reference_rejects."+why]++
			}
			if (err == nil) != want {
				rc.Fail("verdict-differs", "%s (t=+%ds): %s (%s, issuer %s) — VerifyCertificate says %v, the trust rule says accept=%v (%s)", when, t.Unix()-now.Unix(), l.name, l.kind, l.ca.name, errOrAccept(err), want, why)
				return false
			}
			if err == nil && l.cached == nil {
				l.cached = cc
			}
			if l.cached != nil {
				errC := pool.VerifyCachedCertificate(t, l.cached)
				stats["probe.cached_rechecks"]++
				if (errC == nil) != (err == nil) {
					rc.Fail("cached-differs", "%s (t=+%ds): %s — cached re-check says %v, full check says %v", when, t.Unix()-now.Unix(), l.name, errOrAccept(errC), errOrAccept(err))
					return false
				}
				// clock fault: the node's clock was stepped back (NTP correction) after the certificate was accepted;
				// the re-check at that earlier instant must still equal the rule and the full check
				if tp.Chance(1, 3) {
					tb := []time.Time{l.nb.Add(-time.Second), l.nb, l.ca.nb.Add(-time.Second), t.Add(-time.Duration(1+tp.Choose(300)) * time.Second)}[tp.Choose(4)]
					wantB, whyB := refAccept(l, tb, blocked)
					_, errFB := pool.VerifyCertificate(tb, l.crt)
					errCB := pool.VerifyCachedCertificate(tb, l.cached)
					stats["probe.clock_step_back_rechecks"]++
					if (errFB == nil) != wantB {
						rc.Fail("verdict-differs", "%s (clock stepped back to t=%+ds): %s (%s, issuer %s) — VerifyCertificate says %v, the trust rule says accept=%v (%s)", when, tb.Unix()-now.Unix(), l.name, l.kind, l.ca.name, errOrAccept(errFB), wantB, whyB)
						return false
					}
					if (errCB == nil) != wantB {
						rc.Fail("cached-differs", "%s (clock stepped back to t=%+ds): %s — cached re-check says %v, full check says %v, the trust rule says accept=%v (%s)", when, tb.Unix()-now.Unix(), l.name, errOrAccept(errCB), errOrAccept(errFB), wantB, whyB)
						return false
					}
				}
			}
		}
		// tunnels V holds: cached == full
		for _, h := range sortedHostInfos(V.f.hostMap) {
			if h.ConnectionState == nil || h.ConnectionState.peerCert == nil {
				continue
			}
			errC := pool.VerifyCachedCertificate(t, h.ConnectionState.peerCert)
			_, errF := pool.VerifyCertificate(t, h.ConnectionState.peerCert.Certificate)
			if (errC == nil) != (errF == nil) {
				rc.Fail("cached-differs", "%s: tunnel %d — cached re-check says %v, full check says %v", when, h.localIndexId, errOrAccept(errC), errOrAccept(errF))
				return false
			}
		}
		return true
	}
	handshakeProbe := func(l *c01Leaf) bool {
		// a first message that does not report a newer time than the tunnel the responder already
		// holds for that peer is refused as stale (C10): keep probe times strictly increasing
		sw.runUntil(sw.now + 2*time.Millisecond)
		t := time.Now()
		want, why := refAccept(l, t, blocked)
		hb, err := l.crt.MarshalForHandshakes()
		if err != nil {
			return true
		}
		cred := handshake.NewCredential(l.crt, hb, l.priv, suite)
		idx := uint32(1 + tp.Choose(1<<30))
		m, err := handshake.NewMachine(l.crt.Version(), func(v cert.Version) *handshake.Credential {
			if v == l.crt.Version() {
				return cred
			}
			return nil
		}, func(c cert.Certificate) (*cert.CachedCertificate, error) { return nil, errors.New("unused") },
			func() (uint32, error) { return idx, nil }, true, header.HandshakeIXPSK0)
		if err != nil {
			rc.HarnessError("machine: %v", err)
			return false
		}
		msg1, err := m.Initiate(nil)
		if err != nil {
			rc.HarnessError("initiate: %v", err)
			return false
		}
		has := func() bool {
			for _, h := range sortedHostInfos(V.f.hostMap) {
				if h.remoteIndexId == idx && h.ConnectionState != nil && h.ConnectionState.peerCert != nil && h.ConnectionState.peerCert.Fingerprint == l.fp {
					return true
				}
			}
			return false
		}
		from := netip.AddrPortFrom(netip.AddrFrom4([4]byte{198, 51, 100, byte(1 + tp.Choose(200))}), 4242)
		sw.pump()
		V.recvBatch([]*simDatagram{{from: from, to: V.conn.addr, data: msg1, src: -1}})
		stats["probe.handshake_probes"]++
		got := has()
		// a certificate claiming the victim's own address is refused for another reason
		for _, n := range l.nets {
			if n.Addr() == vNets[0].Addr() {
				want = false
			}
		}
		if got != want {
			rc.Fail("handshake-verdict-differs", "t=+%ds: first handshake message from %s (%s, issuer %s): tunnel installed=%v, the trust rule says accept=%v (%s)", t.Unix()-now.Unix(), l.name, l.kind, l.ca.name, got, want, why)
			return false
		}
		if got {
			stats["probe.handshake_accepted"]++
		}
		return true
	}

	// interesting instants, ascending: every boundary -1s, +0, +1s
	var marks []int64
	add := func(t time.Time) {
		for _, d := range []int64{-1, 0, 1} {
			if s := t.Unix() + d - now.Unix(); s > 1 && s < 400 {
				marks = append(marks, s)
			}
		}
	}
	for _, c := range cas {
		add(c.nb)
		add(c.na)
	}
	for _, l := range leaves {
		add(l.nb)
		add(l.na)
	}
	sort.Slice(marks, func(i, j int) bool { return marks[i] < marks[j] })
	marks = slices.Compact(marks)
	if !checkAll("start") {
		return
	}
	steps := 20 + tp.Choose(25)
	mi := 0
	for s := 0; s < steps && !rc.Failed(); s++ {
		switch tp.Weighted(4, 4, 3, 3) {
		case 0: // advance to the next interesting instant (or a little)
			var target time.Duration
			if mi < len(marks) && tp.Chance(3, 4) {
				// (half of the time exactly on the second: "valid at t" includes the NotBefore and NotAfter instants themselves)
				target = time.Duration(marks[mi]) * time.Second
				if tp.Chance(1, 2) {
					target += time.Duration(tp.Choose(999)) * time.Millisecond
				}
				mi++
				// skip marks that are already behind
				for mi < len(marks) && time.Duration(marks[mi])*time.Second <= target {
					mi++
				}
			} else {
				target = sw.now + time.Duration(1+tp.Choose(5000))*time.Millisecond
			}
			if target > sw.now {
				sw.runUntil(target)
				rc.Count("ev.clock_advance", 1)
			}
		case 1: // trust state change through a real reload
			switch tp.Choose(4) {
			case 0:
				c := cas[tp.Choose(len(cas))]
				c.inPool = !c.inPool
				stats["op.toggle_ca"]++
			case 1:
				l := leaves[tp.Choose(len(leaves))]
				blocked[l.fp] = true
				stats["op.blocklist_fingerprint"]++
			case 2:
				l := leaves[tp.Choose(len(leaves))]
				if l.fp2 != "" {
					blocked[l.fp2] = true
					stats["op.blocklist_twin_fingerprint"]++
				}
			case 3:
				clear(blocked)
				stats["op.blocklist_reset"]++
			}
			buildTrust()
			vspec.extra = cfgExtra()
			if err := V.reload(vspec.configYAML()); err != nil {
				rc.HarnessError("reload: %v", err)
				return
			}
		case 2:
			checkAll(fmt.Sprintf("step %d", s))
		case 3:
			l := leaves[tp.Choose(len(leaves))]
			handshakeProbe(l)
		}
		if sw.steps >= sw.maxSteps {
			break
		}
	}
	if !rc.Failed() {
		checkAll("end")
	}
	for k, v := range stats {
		rc.Count(k, int64(v))
	}
	acc, rej := stats["probe.reference_accepts"], stats["probe.verify_calls"]-stats["probe.reference_accepts"]
	rc.TraceQuiet(fmt.Sprintf("acc=%d rej=%d hs=%d", bucket(int64(acc)), bucket(int64(rej)), stats["probe.handshake_accepted"]))
	if acc > 0 && rej > 0 {
		rc.Nontrivial()
	}
	rc.Sample(map[string]any{"curve": curve.String(), "cas": nca, "leaves": nleaf, "steps": steps, "outcomes": stats})
}

func errOrAccept(err error) string {
	if err == nil {
		return "accept"
	}
	return "reject (" + err.Error() + ")"
}

// resign returns the certificate with its signature bytes replaced (through
// the handshake encoding and cert.Recombine, i.e. only public API).
func resign(c cert.Certificate, pub []byte, curve cert.Curve, f func([]byte) []byte) (cert.Certificate, bool) {
	hb, err := c.MarshalForHandshakes()
	if err != nil {
		return nil, false
	}
	sig := c.Signature()
	i := bytes.Index(hb, sig)
	if i < 1 {
		return nil, false
	}
	nsig := f(sig)
	if nsig == nil {
		return nil, false
	}
	nb, ok := replaceSigBytes(hb, i, sig, nsig)
	if !ok {
		return nil, false
	}
	nc, err := cert.Recombine(c.Version(), nb, pub, curve)
	if err != nil {
		return nil, false
	}
	return nc, true
}

// replaceSigBytes is the nebula-package twin of the S-hs helper: swap signature
// bytes, fix the length octet in front and the outer DER length of v2.
func replaceSigBytes(c []byte, i int, old, nw []byte) ([]byte, bool) {
	if i < 1 || int(c[i-1]) != len(old) || len(nw) > 127 {
		return nil, false
	}
	out := append(append(append([]byte(nil), c[:i]...), nw...), c[i+len(old):]...)
	out[i-1] = byte(len(nw))
	delta := len(nw) - len(old)
	if out[0] == 0x30 && delta != 0 {
		switch {
		case out[1] < 0x80:
			if int(out[1])+delta >= 0x80 || int(out[1])+delta < 0 {
				return nil, false
			}
			out[1] = byte(int(out[1]) + delta)
		case out[1] == 0x81:
			if int(out[2])+delta > 0xff || int(out[2])+delta < 0x80 {
				return nil, false
			}
			out[2] = byte(int(out[2]) + delta)
		case out[1] == 0x82:
			l := int(out[2])<<8 | int(out[3])
			l += delta
			out[2], out[3] = byte(l>>8), byte(l)
		default:
			return nil, false
		}
	}
	return out, true
}

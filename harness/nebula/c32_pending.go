package nebula

// C32 — pending handshakes retry, give up, and release queued packets
// correctly. Engine A: an initiator with tape-chosen try interval and retry
// count handshakes toward a static peer that is unreachable, reachable from the
// k-th attempt, or never reachable; 0-150 packets are queued while pending,
// some allowed and some refused by the outbound rules, which may be reloaded
// while the packets sit in the queue; the node may stall.

import (
	"bytes"
	"fmt"
	"slices"
	"time"

	"github.com/slackhq/nebula/header"
	sk "github.com/slackhq/nebula/internal/verifsimkit"
)

func init() {
	sk.Register("C32.pending", sk.Scenario{Run: runC32})
}

func portRuleSet(lo, hi int) []any {
	return []any{map[string]any{"proto": "udp", "port": fmt.Sprintf("%d-%d", lo, hi), "host": "any"}}
}

func runC32(rc *sk.RunCtx) {
	tp := rc.Tape
	tryI := []time.Duration{50 * time.Millisecond, 100 * time.Millisecond, 200 * time.Millisecond, 333 * time.Millisecond}[tp.Choose(4)]
	retries := 2 + tp.Choose(11)
	reachAt := 0 // 0 = never reachable
	if tp.Chance(3, 4) {
		reachAt = 1 + tp.Choose(retries)
	}
	lo1 := 2000 + tp.Choose(5)
	hi1 := lo1 + tp.Choose(8)
	lo2 := 2000 + tp.Choose(8)
	hi2 := lo2 + tp.Choose(6)
	doReload := tp.Chance(1, 2)
	doStall := tp.Chance(1, 4)
	nQueue := 0
	switch tp.Choose(4) {
	case 1:
		nQueue = 1 + tp.Choose(20)
	case 2:
		nQueue = 80 + tp.Choose(40)
	case 3:
		nQueue = 101 + tp.Choose(50)
	}

	mw := buildMesh(rc, meshOpts{minNodes: 2, maxNodes: 2, noFaults: true, tryInterval: tryI,
		extra: func(i int, s *nodeSpec) {
			if i == 0 {
				deepMerge(s.extra, map[string]any{
					"handshakes": map[string]any{"retries": retries},
					"firewall":   map[string]any{"outbound": portRuleSet(lo1, hi1)},
				})
			}
		}})
	if rc.Failed() {
		return
	}
	defer mw.stopAll()
	A, B := mw.nodes[0], mw.nodes[1]
	addrB := B.vpnAddr()
	mw.blocked[[2]int{0, 1}] = true
	mw.blocked[[2]int{1, 0}] = true
	allowLo, allowHi := lo1, hi1

	type tx struct {
		at   time.Duration
		data []byte
	}
	var txs []tx
	stalls := [][2]time.Duration{}
	mw.onWire = func(from *simNode, d *simDatagram) {
		if from != A || d.to != B.conn.addr {
			return
		}
		var h header.H
		if err := h.Parse(d.data); err != nil || h.Type != header.Handshake || h.MessageCounter != 1 {
			return
		}
		txs = append(txs, tx{mw.now, append([]byte(nil), d.data...)})
		if reachAt > 0 && len(txs) == reachAt {
			delete(mw.blocked, [2]int{0, 1})
			delete(mw.blocked, [2]int{1, 0})
		}
	}
	// queue bookkeeping
	var queued []uint64 // marker ids in queue order
	queuedPort := map[uint64]int{}
	maxStore := 0
	completedAt := time.Duration(-1)
	var ruleLo, ruleHi int
	pendingGoneAt := time.Duration(-1)
	var pendingIdx uint32
	sawPending := false
	mw.afterEvent = func(name string) {
		hh := A.f.handshakeManager.queryVpnIp(addrB)
		if hh != nil {
			sawPending = true
			if hh.hostinfo.localIndexId != 0 {
				pendingIdx = hh.hostinfo.localIndexId
			}
			if l := len(hh.packetStore); l > maxStore {
				maxStore = l
			}
			if len(hh.packetStore) > 100 {
				rc.Fail("queue-over-100", "pending handshake holds %d queued packets", len(hh.packetStore))
			}
		} else if sawPending && pendingGoneAt < 0 {
			pendingGoneAt = mw.now
			if pendingIdx != 0 && A.f.handshakeManager.queryIndex(pendingIdx) != nil {
				rc.Fail("pending-index-left-behind", "pending handshake for %v is gone but its index %d is still registered", addrB, pendingIdx)
			}
		}
		if completedAt < 0 && A.f.hostMap.QueryVpnAddr(addrB) != nil {
			completedAt = mw.now
			ruleLo, ruleHi = allowLo, allowHi
		}
	}
	var got []uint64
	mw.onTun = func(n *simNode, pkt []byte) {
		if n != B {
			return
		}
		if _, _, _, _, pl, ok := simParseUDP(pkt); ok {
			if id, ok := parseMarker(pl); ok {
				got = append(got, id)
			}
		}
	}

	t0 := 300 * time.Millisecond
	sendOne := func() {
		port := 2000 + tp.Choose(12)
		mw.nextID++
		id := mw.nextID
		pkt := simUDP(A.vpnAddr(), addrB, 1000, uint16(port), markerPayload(id, tp.Choose(32)))
		hhBefore := A.f.handshakeManager.queryVpnIp(addrB)
		before := 0
		if hhBefore != nil {
			before = len(hhBefore.packetStore)
		}
		hadTunnel := A.f.hostMap.QueryVpnAddr(addrB) != nil
		A.sendInside(pkt)
		if hadTunnel {
			return
		}
		if hh := A.f.handshakeManager.queryVpnIp(addrB); hh != nil && len(hh.packetStore) == before+1 {
			queued = append(queued, id)
			queuedPort[id] = port
		}
	}
	// the first packet starts the handshake
	mw.at(t0, "first packet", sendOne)
	// worst case time until the handshake is abandoned
	var total time.Duration
	for k := 1; k <= retries; k++ {
		total += time.Duration(k+2) * tryI
	}
	// queue packets only while the handshake is certainly still pending: before the
	// earliest possible time of the deciding attempt (k-th, or the last one)
	last := reachAt
	if last == 0 {
		last = retries
	}
	span := time.Duration(0)
	for k := 1; k < last; k++ {
		span += time.Duration(k) * tryI
	}
	for q := 1; q < nQueue; q++ {
		at := t0 + time.Duration(tp.Choose(int(span/time.Millisecond)+1))*time.Millisecond
		mw.at(at, "queue packet", sendOne)
	}
	if doReload {
		at := t0 + time.Duration(tp.Choose(int(span/time.Millisecond)+1))*time.Millisecond
		mw.at(at, "reload outbound rules", func() {
			spec := *A.spec
			spec.extra = map[string]any{}
			deepMerge(spec.extra, A.spec.extra)
			deepMerge(spec.extra, map[string]any{"firewall": map[string]any{"outbound": portRuleSet(lo2, hi2)}})
			if err := A.reload(spec.configYAML()); err != nil {
				rc.HarnessError("reload: %v", err)
				return
			}
			allowLo, allowHi = lo2, hi2
			A.spec = &spec // later reloads build on this configuration
			rc.Count("op.reload_firewall", 1)
		})
	}
	if doStall {
		at := t0 + time.Duration(tp.Choose(int(total/time.Millisecond)+1))*time.Millisecond
		d := time.Duration(1+tp.Choose(20)) * tryI
		mw.at(at, "stall", func() {
			mw.opStall(0, d)
			stalls = append(stalls, [2]time.Duration{mw.now, mw.now + d})
		})
		total += d
	}
	// the peer's known address list changes while the handshake is pending (a reload adds an unreachable second
	// static address): the attempt counter and the backoff must carry on
	lhTriggers := false
	if tp.Chance(1, 3) {
		// in half of these runs the change comes with what a lighthouse answer brings: a trigger for the handshake
		// manager to try the new addresses at once. A triggered attempt is an attempt like any other (it counts
		// against handshakes.retries); the gap rules, stated for timer-driven retries, are not applied in such runs.
		lhTriggers = tp.Chance(1, 2)
		nch := 1 + tp.Choose(3)
		for c := 0; c < nch; c++ {
			at := t0 + time.Duration(tp.Choose(int(total/time.Millisecond)+1))*time.Millisecond
			extraAddr := fmt.Sprintf("10.99.0.%d:4242", 10+c)
			mw.at(at, "peer address list changes", func() {
				spec := *A.spec
				spec.static = map[string][]string{}
				for k, v := range A.spec.static {
					spec.static[k] = append([]string(nil), v...)
				}
				spec.static[addrB.String()] = append(spec.static[addrB.String()], extraAddr)
				if err := A.reload(spec.configYAML()); err != nil {
					rc.HarnessError("reload: %v", err)
					return
				}
				A.spec = &spec
				rc.Count("op.reload_static_addresses", 1)
				if lhTriggers {
					select {
					case A.f.handshakeManager.trigger <- addrB:
						rc.Count("op.lighthouse_trigger", 1)
					default:
					}
				}
			})
		}
	}
	end := t0 + total + 10*tryI + 2*time.Second
	mw.runUntil(end)
	if rc.Failed() {
		return
	}

	overlapsStall := func(a, b time.Duration) bool {
		for _, s := range stalls {
			if a < s[1]+2*tryI && s[0] < b+2*tryI {
				return true
			}
		}
		return false
	}
	if lhTriggers {
		// Triggered attempts use up attempts ahead of the timer schedule, so the handshake may be abandoned (and a new
		// one started by a later packet) earlier than the rules below assume. What still holds, per handshake — one
		// handshake = one first-message body —: never more transmissions to the peer than handshakes.retries.
		per := map[string]int{}
		for _, t := range txs {
			per[string(t.data)]++
		}
		for _, n := range per {
			if n > retries {
				rc.Fail("too-many-attempts", "retries=%d but one handshake's first message was transmitted %d times (lighthouse-triggered attempts count as attempts)", retries, n)
				return
			}
		}
		rc.Count("probe.triggered_runs", 1)
		rc.TraceQuiet(fmt.Sprintf("trig I=%v r=%d tx=%d", tryI, retries, len(txs)))
		rc.Nontrivial()
		return
	}
	// (a) retransmissions: identical bytes, linearly growing gaps
	for i := 1; i < len(txs); i++ {
		if !bytes.Equal(txs[i].data, txs[0].data) {
			rc.Fail("retransmit-differs", "handshake attempt %d is not a byte-identical retransmission of the first message", i+1)
			return
		}
		k := time.Duration(i) // gap between attempt i and i+1
		gap := txs[i].at - txs[i-1].at
		if gap < k*tryI {
			rc.Fail("retry-too-early", "try interval %v: gap between attempts %d and %d is %v, less than %v", tryI, i, i+1, gap, k*tryI)
			return
		}
		if gap > (k+2)*tryI && !overlapsStall(txs[i-1].at, txs[i].at) {
			rc.Fail("retry-too-late", "try interval %v: gap between attempts %d and %d is %v, more than %v", tryI, i, i+1, gap, (k+2)*tryI)
			return
		}
	}
	// (b) number of attempts and cleanup
	if len(txs) > retries {
		rc.Fail("too-many-attempts", "retries=%d but %d first-message transmissions were seen", retries, len(txs))
		return
	}
	if reachAt == 0 {
		if len(txs) != retries {
			rc.Fail("wrong-attempt-count", "peer never reachable, retries=%d, but %d transmissions were seen", retries, len(txs))
			return
		}
		if hh := A.f.handshakeManager.queryVpnIp(addrB); hh != nil {
			rc.Fail("pending-not-abandoned", "retries=%d try_interval=%v: pending handshake still present %v after it started (attempt counter %d)", retries, tryI, end-t0, hh.counter)
			return
		}
		if pendingIdx != 0 && A.f.handshakeManager.queryIndex(pendingIdx) != nil {
			rc.Fail("pending-index-left-behind", "abandoned handshake left index %d registered", pendingIdx)
			return
		}
		if len(got) != 0 {
			rc.Fail("delivered-without-tunnel", "%d packets reached the peer although it was never reachable", len(got))
			return
		}
	} else {
		if completedAt < 0 {
			rc.Fail("never-completed", "peer reachable from attempt %d of %d but no tunnel was installed (%d transmissions)", reachAt, retries, len(txs))
			return
		}
		// (d) queued packets: exactly the allowed ones (under the rules in force at completion), once, in order
		var want []uint64
		for _, id := range queued {
			if p := queuedPort[id]; p >= ruleLo && p <= ruleHi {
				want = append(want, id)
			}
		}
		var gotQueued []uint64
		for _, id := range got {
			if _, ok := queuedPort[id]; ok {
				gotQueued = append(gotQueued, id)
			}
		}
		if !slices.Equal(gotQueued, want) {
			rc.Fail("queue-release-wrong", "queued=%d (store max %d), outbound rule at completion allows udp %d-%d: expected the peer to receive %d queued packets %v, it received %d: %v", len(queued), maxStore, ruleLo, ruleHi, len(want), head(want), len(gotQueued), head(gotQueued))
			return
		}
	}
	rc.Count("probe.queued_packets", int64(len(queued)))
	if maxStore == 100 {
		rc.Count("probe.queue_reached_cap", 1)
	}
	if reachAt == 0 {
		rc.Count("probe.abandoned", 1)
	} else {
		rc.Count("probe.completed_late", 1)
	}
	rc.TraceQuiet(fmt.Sprintf("I=%v r=%d k=%d q=%d rl=%v st=%v", tryI, retries, reachAt, bucket(int64(nQueue)), doReload, doStall))
	if len(txs) >= 2 {
		rc.Nontrivial()
	}
	rc.Sample(map[string]any{"try_interval": tryI.String(), "retries": retries, "reachable_from_attempt": reachAt, "transmissions": len(txs), "queued": len(queued),
		"queue_max": maxStore, "reload_while_queued": doReload, "stall": doStall, "delivered_after_completion": len(got)})
}

func head(v []uint64) []uint64 {
	if len(v) > 12 {
		return v[:12]
	}
	return v
}

package nebula

// C42 — certificate reload never changes a node's identity. Engine A world:
// node V with connected peers goes through 1-15 real config reloads whose
// pki.cert / pki.key / pki.ca / pki.blocklist combinations come from the tape:
// valid re-issues, added/removed certificate versions, changed networks, changed
// curve, mismatched key, expired certificate, garbage, CA bundle garbage or
// all-expired, CA removed, peers blocklisted. After each reload the
// certificates and trust store in use are compared with what the statement
// allows, and blocklisted/untrusted peers must be gone by their next check.

import (
	"fmt"
	"net/netip"
	"slices"
	"sort"
	"strings"
	"time"

	"github.com/slackhq/nebula/cert"
	sk "github.com/slackhq/nebula/internal/verifsimkit"
)

func init() {
	sk.Register("C42.reload", sk.Scenario{Run: runC42})
}

type c42Cand struct {
	desc    string
	certPEM string
	keyPEM  string
	v1, v2  cert.Certificate
	ok      bool // parses, unexpired, key matches, versions consistent with each other
}

func fpOf(c cert.Certificate) string {
	if c == nil {
		return ""
	}
	f, _ := c.Fingerprint()
	return f
}

func runC42(rc *sk.RunCtx) {
	tp := rc.Tape
	sw := newSimWorld(rc)
	defer sw.stopAll()
	sw.faults.baseLatency = time.Millisecond
	now := time.Now()
	curve := cert.Curve_CURVE25519
	other := cert.Curve_P256
	if tp.Chance(1, 3) {
		curve, other = other, curve
	}
	caNB, caNA := now.Add(-2*time.Hour), now.Add(20000*time.Hour)
	cas := []*simCA{
		newSimCA(cert.Version2, curve, "ca-one", caNB, caNA, nil, nil, nil),
		newSimCA(cert.Version2, curve, "ca-two", caNB, caNA, nil, nil, nil),
	}
	caOther := newSimCA(cert.Version2, other, "ca-other-curve", caNB, caNA, nil, nil, nil)
	caExpired := newSimCA(cert.Version2, curve, "ca-expired", now.Add(-10*time.Hour), now.Add(-time.Hour), nil, nil, nil)
	nb, na := now.Add(-time.Hour), now.Add(10000*time.Hour)
	alive, pendDel := 1+tp.Choose(3), 1+tp.Choose(4)

	nets := []netip.Prefix{netip.MustParsePrefix("10.128.0.1/24")}
	multi := tp.Chance(1, 3)
	startVersions := [][]cert.Version{{cert.Version2}, {cert.Version1}, {cert.Version1, cert.Version2}}[tp.Choose(3)]
	if multi && slices.Contains(startVersions, cert.Version2) {
		nets = append(nets, netip.MustParsePrefix("10.129.0.1/24"))
	}
	vid := newSimIdentity(cas[0], startVersions, "victim", nb, na, nets, nil, nil)
	vid.trust = []*simCA{cas[0], cas[1]}
	vspec := &nodeSpec{name: "victim", nets: nets, udp: underlayAddr(0, 0), id: vid, static: map[string][]string{},
		extra: map[string]any{"timers": map[string]any{"connection_alive_interval": alive, "pending_deletion_interval": pendDel}}}
	// pki.disconnect_invalid: false asks the node to keep tunnels whose certificate stopped verifying (expired,
	// CA gone); a blocklisted peer is disconnected all the same. With it the "untrusted" half is not judged.
	keepInvalid := tp.Chance(1, 3)
	if keepInvalid {
		deepMerge(vspec.extra, map[string]any{"pki": map[string]any{"disconnect_invalid": false}})
	}
	type peerInfo struct {
		node *simNode
		addr netip.Addr
		ca   int
		fp   string
	}
	var peers []*peerInfo
	var pspecs []*nodeSpec
	np := 1 + tp.Choose(2)
	for i := 1; i <= np; i++ {
		ci := tp.Choose(2)
		pn := []netip.Prefix{netip.PrefixFrom(netip.AddrFrom4([4]byte{10, 128, 0, byte(i + 1)}), 24)}
		id := newSimIdentity(cas[ci], []cert.Version{cert.Version2}, fmt.Sprintf("peer%d", i), nb, na, pn, nil, nil)
		id.trust = []*simCA{cas[0], cas[1]}
		pspecs = append(pspecs, &nodeSpec{name: fmt.Sprintf("peer%d", i), nets: pn, udp: underlayAddr(i, 0), id: id, static: map[string][]string{"10.128.0.1": {underlayAddr(0, 0).String()}},
			extra: map[string]any{"pki": map[string]any{"disconnect_invalid": false}}})
		vspec.static[pn[0].Addr().String()] = []string{underlayAddr(i, 0).String()}
		peers = append(peers, &peerInfo{addr: pn[0].Addr(), ca: ci, fp: id.fingerprints()[0]})
	}
	V := sw.addNode(vspec)
	if V == nil {
		return
	}
	for i, s := range pspecs {
		nd := sw.addNode(s)
		if nd == nil {
			return
		}
		peers[i].node = nd
	}
	for _, p := range peers {
		V.f.handshakeManager.StartHandshake(p.addr, nil)
	}
	sw.runUntil(1500 * time.Millisecond)

	// the model: what is in use
	inUse := map[cert.Version]cert.Certificate{}
	for _, c := range vid.certs {
		inUse[c.Version()] = c
	}
	firstNets := map[cert.Version][]netip.Prefix{}
	for v, c := range inUse {
		firstNets[v] = c.Networks()
	}
	primary := nets[0]
	poolFPs := []string{cas[0].fp, cas[1].fp}
	sort.Strings(poolFPs)
	blocked := map[string]bool{}
	curPool := []*simCA{cas[0], cas[1]}
	rc.Trace("C42 curve=%v start=%v multi=%v peers=%d", curve, startVersions, multi, np)

	observe := func(when string) bool {
		cs := V.f.pki.getCertState()
		got := map[cert.Version]cert.Certificate{}
		if cs.v1Cert != nil {
			got[cert.Version1] = cs.v1Cert
		}
		if cs.v2Cert != nil {
			got[cert.Version2] = cs.v2Cert
		}
		for v, c := range got {
			if c.Curve() != curve {
				rc.Fail("curve-changed", "%s: the v%d certificate in use has curve %v, the node started with %v", when, v, c.Curve(), curve)
				return false
			}
			if c.Networks()[0] != primary {
				rc.Fail("primary-network-changed", "%s: the v%d certificate in use has primary network %v, the node started with %v", when, v, c.Networks()[0], primary)
				return false
			}
			if fn, ok := firstNets[v]; ok && !slices.Equal(fn, c.Networks()) {
				rc.Fail("networks-changed", "%s: the v%d certificate in use has networks %v, that version had %v", when, v, c.Networks(), fn)
				return false
			}
		}
		if len(got) == 2 && !slices.Equal(got[cert.Version1].PublicKey(), got[cert.Version2].PublicKey()) {
			rc.Fail("versions-different-keys", "%s: the v1 and v2 certificates in use have different public keys", when)
			return false
		}
		for _, v := range []cert.Version{cert.Version1, cert.Version2} {
			if fpOf(got[v]) != fpOf(inUse[v]) {
				rc.Fail("wrong-certificate-in-use", "%s: v%d certificate in use is %.12s, expected %.12s (empty = none)", when, v, fpOf(got[v]), fpOf(inUse[v]))
				return false
			}
		}
		fps := V.f.pki.GetCAPool().GetFingerprints()
		sort.Strings(fps)
		if !slices.Equal(fps, poolFPs) {
			rc.Fail("wrong-trust-store", "%s: trusted CAs are %v, expected %v", when, shortFPs(fps), shortFPs(poolFPs))
			return false
		}
		for _, p := range peers {
			if V.f.pki.GetCAPool().IsBlocklisted(p.fp) != blocked[p.fp] {
				rc.Fail("wrong-blocklist", "%s: blocklist state of peer %v is %v, expected %v", when, p.addr, !blocked[p.fp], blocked[p.fp])
				return false
			}
		}
		return true
	}
	if !observe("after start") {
		return
	}

	stats := map[string]int{}
	reloadCount := 1 + tp.Choose(15)
	t := 2 * time.Second
	for r := 0; r < reloadCount && !rc.Failed(); r++ {
		t += time.Duration(200+tp.Choose(4000)) * time.Millisecond
		sw.runUntil(t)
		if rc.Failed() {
			return
		}
		// ---- candidate certificates
		cand := c42Cand{ok: true}
		id := vid.clone()
		kind := tp.Choose(12)
		hasV1, hasV2 := inUse[cert.Version1] != nil, inUse[cert.Version2] != nil
		curNets := func(v cert.Version) []netip.Prefix { return inUse[v].Networks() }
		reissue := func(id *simIdentity, v cert.Version, n []netip.Prefix, a time.Time) {
			id.issue(cas[0], v, "victim", nb, a, n, nil, nil)
		}
		// start from a fresh re-issue of what is in use
		base := &simIdentity{ca: cas[0], pub: vid.pub, priv: vid.priv, keyPEM: vid.keyPEM, curve: vid.curve}
		after := na.Add(time.Duration(r+1) * time.Hour)
		if hasV1 {
			reissue(base, cert.Version1, curNets(cert.Version1), after)
		}
		if hasV2 {
			reissue(base, cert.Version2, curNets(cert.Version2), after)
		}
		id = base
		switch kind {
		case 0, 1: // plain re-issue
			cand.desc = "re-issue"
		case 2: // add the missing version (same networks as the other one)
			if hasV1 && !hasV2 {
				n := curNets(cert.Version1)
				cand.desc = "add v2 with the v1 networks"
				if tp.Chance(1, 3) {
					// the v1 network is in the v2 certificate, but not as its primary network
					n = append([]netip.Prefix{netip.MustParsePrefix("10.129.0.1/24")}, n...)
					cand.desc = "add v2 that lists the v1 network second"
				}
				reissue(id, cert.Version2, n, after)
			} else if hasV2 && !hasV1 {
				n := curNets(cert.Version2)[:1]
				cand.desc = "add v1 with the primary network"
				if len(curNets(cert.Version2)) > 1 && tp.Chance(1, 2) {
					n = curNets(cert.Version2)[1:2]
					cand.desc = "add v1 with the second network of the v2 certificate"
				}
				reissue(id, cert.Version1, n, after)
			} else {
				cand.desc = "re-issue"
			}
		case 3: // drop a version
			if hasV1 && hasV2 {
				if tp.Chance(1, 2) {
					id.drop(cert.Version1)
					cand.desc = "drop v1"
				} else {
					id.drop(cert.Version2)
					cand.desc = "drop v2"
				}
			} else {
				cand.desc = "re-issue"
			}
		case 4: // changed networks for a version in use
			v := cert.Version2
			if !hasV2 {
				v = cert.Version1
			}
			n := slices.Clone(curNets(v))
			switch tp.Choose(4) {
			case 3:
				// only the host address of a non-primary network moves, inside its subnet (same prefix once masked)
				if len(n) > 1 {
					n[len(n)-1] = netip.MustParsePrefix("10.129.0.77/24")
				} else {
					n[0] = netip.MustParsePrefix("10.128.0.99/24")
				}
			case 0:
				n[0] = netip.MustParsePrefix("10.128.0.99/24")
			case 1:
				n[0] = netip.PrefixFrom(n[0].Addr(), 16)
			case 2:
				if v == cert.Version2 {
					n = append(n, netip.MustParsePrefix("10.130.0.1/24"))
				} else {
					n[0] = netip.MustParsePrefix("10.128.1.1/24")
				}
			}
			reissue(id, v, n, after)
			cand.desc = fmt.Sprintf("v%d networks changed to %v", v, n)
		case 5: // other curve (certificate and key)
			o := newSimIdentity(caOther, []cert.Version{cert.Version2}, "victim", nb, after, curNets(highest(inUse)), nil, nil)
			id = o
			cand.desc = "certificate and key of another curve"
		case 6: // key that does not match the certificate
			o := newSimIdentity(cas[0], []cert.Version{cert.Version2}, "victim", nb, after, curNets(highest(inUse)), nil, nil)
			id.keyPEM = o.keyPEM
			cand.desc = "private key of another identity"
			cand.ok = false
		case 7: // expired certificate
			v := highest(inUse)
			id.issue(cas[0], v, "victim", now.Add(-50*time.Minute), now.Add(-10*time.Minute), curNets(v), nil, nil)
			cand.desc = "expired certificate"
			cand.ok = false
		case 8: // garbage
			cand.desc = "garbage certificate"
			cand.ok = false
		case 9: // v1 and v2 with different keys
			if hasV1 && hasV2 {
				o := newSimIdentity(cas[0], []cert.Version{cert.Version1}, "victim", nb, after, curNets(cert.Version1), nil, nil)
				id.replace(o.certs[0], o.pems[0])
				cand.desc = "v1 certificate for another key"
				cand.ok = false
			} else {
				cand.desc = "re-issue"
			}
		case 11: // replace the only certificate by one of the other version (same key)
			if hasV1 != hasV2 {
				from, to := cert.Version1, cert.Version2
				if hasV2 {
					from, to = cert.Version2, cert.Version1
				}
				n := slices.Clone(curNets(from))
				if to == cert.Version1 {
					n = n[:1]
				}
				if tp.Chance(1, 2) {
					n[0] = netip.MustParsePrefix("10.128.0.77/24")
				}
				id.drop(from)
				reissue(id, to, n, after)
				cand.desc = fmt.Sprintf("replace v%d by v%d with networks %v", from, to, n)
			} else {
				cand.desc = "re-issue"
			}
		case 10: // new identity altogether (other key, same networks): allowed by the statement
			o := newSimIdentity(cas[0], versionsOf(inUse), "victim", nb, after, curNets(highest(inUse)), nil, nil)
			id = o
			cand.desc = "new key pair, same networks"
		}
		cand.certPEM, cand.keyPEM = id.certPEM(), string(id.keyPEM)
		if kind == 8 {
			cand.certPEM = "-----BEGIN NEBULA CERTIFICATE-----\nZ2FyYmFnZQ==\n-----END NEBULA CERTIFICATE-----\n"
		}
		cand.v1, cand.v2 = id.cert(cert.Version1), id.cert(cert.Version2)
		// ---- candidate trust store
		caKind := tp.Choose(7)
		newPool := curPool
		caPEM := ""
		caOK := true
		newBlocked := map[string]bool{}
		for k, v := range blocked {
			newBlocked[k] = v
		}
		switch caKind {
		case 0, 1, 2:
		case 3:
			if len(curPool) == 2 {
				newPool = []*simCA{cas[0]}
			} else {
				newPool = []*simCA{cas[0], cas[1]}
			}
		case 4:
			caPEM = "not a pem bundle at all"
			caOK = false
		case 5:
			caPEM = string(caExpired.pem)
			caOK = false
		case 6:
			p := peers[tp.Choose(np)]
			newBlocked[p.fp] = !newBlocked[p.fp]
		}
		if caPEM == "" {
			for _, c := range newPool {
				caPEM += string(c.pem)
			}
		}
		var bl []any
		for _, p := range peers {
			if newBlocked[p.fp] {
				bl = append(bl, p.fp)
			}
		}
		// ---- what the statement says should happen
		accept := cand.ok && kind != 8
		why := ""
		if accept {
			for _, v := range []cert.Version{cert.Version1, cert.Version2} {
				nc := id.cert(v)
				if nc == nil {
					continue
				}
				if nc.Curve() != curve {
					accept, why = false, "curve would change"
				}
				if nc.Networks()[0] != primary {
					accept, why = false, "primary overlay network would change"
				}
				if cur := inUse[v]; cur != nil && !slices.Equal(cur.Networks(), nc.Networks()) {
					accept, why = false, fmt.Sprintf("v%d networks would change", v)
				}
			}
			if inUse[cert.Version2] != nil && id.cert(cert.Version2) == nil {
				if id.cert(cert.Version1) == nil || !slices.Equal(inUse[cert.Version2].Networks(), id.cert(cert.Version1).Networks()) {
					accept, why = false, "v2 dropped without an equal-network v1"
				}
			}
		} else {
			why = "unusable certificate material"
		}
		// ---- do it
		spec := *vspec
		spec.extra = map[string]any{}
		deepMerge(spec.extra, vspec.extra)
		pk := map[string]any{"cert": cand.certPEM, "key": cand.keyPEM, "ca": caPEM}
		if len(bl) > 0 {
			pk["blocklist"] = bl
		} else {
			pk["blocklist"] = []any{}
		}
		deepMerge(spec.extra, map[string]any{"pki": pk})
		if err := V.reload(spec.configYAML()); err != nil {
			rc.HarnessError("reload: %v", err)
			return
		}
		stats["op.reload"]++
		rc.Logf("t=%v reload %d: %s; trust store kind %d -> cert %s (%s), ca %v", sw.now, r, cand.desc, caKind, map[bool]string{true: "accept", false: "refuse"}[accept], why, caOK)
		if accept {
			inUse = map[cert.Version]cert.Certificate{}
			for _, c := range id.certs {
				inUse[c.Version()] = c
				if _, ok := firstNets[c.Version()]; !ok {
					firstNets[c.Version()] = c.Networks()
				}
			}
			for v := range firstNets {
				if inUse[v] == nil {
					delete(firstNets, v) // the version is gone; a later re-add starts afresh (primary network is still pinned)
				}
			}
			vid = id
			stats["probe.cert_reload_accepted"]++
		} else {
			stats["probe.cert_reload_refused"]++
		}
		if caOK {
			curPool = newPool
			poolFPs = nil
			for _, c := range curPool {
				poolFPs = append(poolFPs, c.fp)
			}
			sort.Strings(poolFPs)
			// newly blocklisted / untrusted peers must be gone by their next check
			for _, p := range peers {
				newly := newBlocked[p.fp] && !blocked[p.fp]
				untrusted := !slices.Contains(curPool, cas[p.ca]) && !keepInvalid
				if newly || untrusted {
					p := p
					deadline := sw.now + time.Duration(max(alive, pendDel))*time.Second + 1200*time.Millisecond
					gen := stats["op.reload"]
					sw.at(deadline, "c42-deadline", func() {
						if stats["op.reload"] != gen {
							return // trust state was changed again meanwhile
						}
						for _, h := range sortedHostInfos(V.f.hostMap) {
							if h.ConnectionState != nil && h.ConnectionState.peerCert != nil && h.ConnectionState.peerCert.Fingerprint == p.fp {
								rc.Fail("revoked-peer-still-connected", "peer %v was blocklisted=%v untrusted=%v at t=%v; %v later (check interval %ds, pending-deletion %ds) the node still holds tunnel %d to it", p.addr, newly, untrusted, deadline-time.Duration(max(alive, pendDel))*time.Second-1200*time.Millisecond, time.Duration(max(alive, pendDel))*time.Second+1200*time.Millisecond, alive, pendDel, h.localIndexId)
								return
							}
						}
						stats["probe.revoked_peer_gone_in_time"]++
					})
				}
			}
			blocked = newBlocked
			stats["probe.ca_reload_accepted"]++
		} else {
			stats["probe.ca_reload_refused"]++
		}
		if !observe(fmt.Sprintf("after reload %d (%s; trust kind %d)", r, cand.desc, caKind)) {
			return
		}
		// keep tunnels busy so that there is something to disconnect
		for _, p := range peers {
			if tp.Chance(1, 2) {
				p.node.sendInside(simUDP4(p.addr, primary.Addr(), 2000, 1000, markerPayload(uint64(r)<<8, 0)))
			}
		}
	}
	sw.runUntil(t + time.Duration(max(alive, pendDel)+3)*time.Second)
	for k, v := range stats {
		rc.Count(k, int64(v))
	}
	rc.TraceQuiet(fmt.Sprintf("r=%d acc=%d ref=%d caref=%d gone=%d", reloadCount, stats["probe.cert_reload_accepted"], stats["probe.cert_reload_refused"], stats["probe.ca_reload_refused"], stats["probe.revoked_peer_gone_in_time"]))
	if stats["probe.cert_reload_accepted"] > 0 && stats["probe.cert_reload_refused"] > 0 {
		rc.Nontrivial()
	}
	rc.Sample(map[string]any{"curve": curve.String(), "start_versions": fmt.Sprint(startVersions), "reloads": reloadCount, "outcomes": stats})
}

func shortFPs(f []string) []string {
	var o []string
	for _, s := range f {
		if len(s) > 10 {
			s = s[:10]
		}
		o = append(o, s)
	}
	return o
}

func highest(m map[cert.Version]cert.Certificate) cert.Version {
	if m[cert.Version2] != nil {
		return cert.Version2
	}
	return cert.Version1
}

func versionsOf(m map[cert.Version]cert.Certificate) []cert.Version {
	var o []cert.Version
	for _, v := range []cert.Version{cert.Version1, cert.Version2} {
		if m[v] != nil {
			o = append(o, v)
		}
	}
	return o
}

func (id *simIdentity) drop(v cert.Version) {
	for i, c := range id.certs {
		if c.Version() == v {
			id.certs = append(id.certs[:i], id.certs[i+1:]...)
			id.pems = append(id.pems[:i], id.pems[i+1:]...)
			return
		}
	}
}

func (id *simIdentity) replace(c cert.Certificate, pem []byte) {
	for i, o := range id.certs {
		if o.Version() == c.Version() {
			id.certs[i], id.pems[i] = c, pem
			return
		}
	}
	id.certs = append(id.certs, c)
	id.pems = append(id.pems, pem)
}

var _ = strings.TrimSpace

package e2e

import (
	"testing"

	sk "github.com/slackhq/nebula/internal/verifsimkit"
)

// TestVerif is the entry point of engine D (live nodes: real Main, real
// goroutines, race detector) compiled into package e2e with -tags e2e_testing
// -race; bin/vcheck drives it through the VERIF_JOB job file.
func TestVerif(t *testing.T) { sk.WorkerMain(t) }

package e2e

// Engine D — live nodes. Every node is a real nebula.Main instance with all of
// its goroutines (udp reader, tun reader, handshake manager, connection
// manager, lighthouse updater, punchy timers), started inside one synctest
// bubble (fake clock, quiescence detection) in a binary built with -race and
// -tags e2e_testing (channel-backed socket and tun).
//
// The driver is the only source of stimuli and takes every decision from the
// tape: it waits for quiescence, collects what the nodes emitted, applies
// transport faults, then launches a BURST of stimuli — packet deliveries (one
// goroutine per destination), tun sends, config reloads, control-API calls,
// tunnel closes, rebinds, node stops and restarts — each in its own goroutine
// and without waiting in between, so that they run concurrently with each other
// and with the node's own timers; then it advances the fake clock.
//
// What is seeded and replayable: the whole stimulus/fault/timing schedule.
// What is not: the order in which the Go runtime runs the goroutines inside one
// burst. The race detector decides by happens-before, not by observed order, so
// an unsynchronised access pair shows whenever both accesses occur in a run.

import (
	"bytes"
	"fmt"
	"net/netip"
	"os"
	"runtime"
	"sort"
	"strings"
	"sync"
	"sync/atomic"
	"testing/synctest"
	"time"

	"github.com/slackhq/nebula"
	"github.com/slackhq/nebula/cert"
	"github.com/slackhq/nebula/cert_test"
	"github.com/slackhq/nebula/config"
	sk "github.com/slackhq/nebula/internal/verifsimkit"
	"github.com/slackhq/nebula/udp"
	"go.yaml.in/yaml/v3"
)

func init() {
	sk.Register("C34.live", sk.Scenario{Run: func(rc *sk.RunCtx) { runLive(rc, "race") }, PostRun: raceOracle,
		Isolated: true, HangTimeout: 75 * time.Second, IgnoreLeak: true})
	sk.Register("C49.stop", sk.Scenario{Run: func(rc *sk.RunCtx) { runLive(rc, "stop") }, PostRun: raceSkip,
		HangTimeout: 75 * time.Second, LeakIsViolation: true})
}

type liveNode struct {
	idx  int
	gen  int
	// queues: sockets / reader routines this incarnation runs (1 unless the run uses udp.TesterMultiReader)
	queues int
	name string
	ctl  *nebula.Control
	cfg  *config.C
	crt  cert.Certificate
	key  []byte
	vpn  netip.Addr
	udp  netip.AddrPort
	ov   m

	started   bool
	stopping  bool // a stop stimulus has been launched
	stopAt    time.Duration
	stopDone  atomic.Bool
	waitDone  atomic.Bool
	tunClosed atomic.Bool
	quit      chan struct{}

	mu     sync.Mutex
	udpOut []*udp.Packet
	tunIn  int
}

type flight struct {
	p   *udp.Packet
	to  int
	at  time.Duration
	seq uint64
}

type stim struct {
	name string
	node int
	run  func()
	done atomic.Bool
}

type liveWorld struct {
	rc    *sk.RunCtx
	tp    *sk.Tape
	focus string
	ca    cert.Certificate
	caKey []byte
	nodes []*liveNode
	old   []*liveNode // stopped incarnations, still checked at the end
	start time.Time

	inflight []*flight
	seq      uint64
	blocked  map[[2]int]bool
	dropPct  int
	dupPct   int
	longPct  int
	useLH    bool

	tunSent int
	kinds   map[string]int

	connsAtStart int64 // udp.TesterConnsOpen() when the run began
	routines     []any // the routines setting of each node (for messages)
}

func (w *liveWorld) now() time.Duration { return time.Since(w.start) }

func overlayOf(i int) netip.Addr { return netip.AddrFrom4([4]byte{10, 128, 0, byte(i + 1)}) }
func underlayOf(i int) netip.AddrPort {
	return netip.AddrPortFrom(netip.AddrFrom4([4]byte{10, 0, 0, byte(i + 1)}), 4242)
}

func (w *liveWorld) overrides(i int, n int) m {
	tp := w.tp
	ov := m{
		"listen":     m{"rebind_on_network_change": false},
		// more routines than the test socket supports: Main opens that many sockets and clamps to one reader
		"routines": []int{1, 1, 2, 3}[tp.Choose(4)],
		"punchy":   m{"punch": true, "respond": tp.Chance(1, 2), "delay": "50ms", "respond_delay": "100ms"},
		// small worker queues (default 64): full queues are where a sender that still holds a lock meets a worker
		// that needs it
		"handshakes": m{"try_interval": []string{"100ms", "50ms", "250ms"}[tp.Choose(3)], "retries": 4 + tp.Choose(6),
			"query_buffer": []int{64, 1, 2, 4}[tp.Choose(4)], "trigger_buffer": []int{64, 1, 2, 4}[tp.Choose(4)]},
		"timers":     m{"connection_alive_interval": 1 + tp.Choose(4), "pending_deletion_interval": 1 + tp.Choose(4)},
	}
	if tp.Chance(1, 3) {
		ov["tunnels"] = m{"drop_inactive": true, "inactivity_timeout": []string{"3s", "6s", "12s"}[tp.Choose(3)]}
	}
	if w.useLH {
		lh := m{"am_lighthouse": i == 0, "interval": 2 + tp.Choose(5)}
		rl := m{"am_relay": i == 0, "use_relays": true}
		if i != 0 {
			lh["hosts"] = []string{overlayOf(0).String()}
			rl["relays"] = []string{overlayOf(0).String()}
			ov["static_host_map"] = m{overlayOf(0).String(): []string{underlayOf(0).String()}}
		}
		ov["lighthouse"] = lh
		ov["relay"] = rl
	} else {
		sm := m{}
		for j := 0; j < n; j++ {
			if j != i {
				sm[overlayOf(j).String()] = []string{underlayOf(j).String()}
			}
		}
		ov["static_host_map"] = sm
	}
	return ov
}

func (w *liveWorld) newNode(i, gen int, crt cert.Certificate, key []byte, ov m) *liveNode {
	nd := &liveNode{idx: i, gen: gen, name: fmt.Sprintf("n%d", i), vpn: overlayOf(i), udp: underlayOf(i), ov: ov, quit: make(chan struct{})}
	if crt == nil {
		v := cert.Version2
		if w.ca.Version() == cert.Version1 {
			v = cert.Version1
		}
		crt, _, key, _ = cert_test.NewTestCert(v, w.ca.Curve(), w.ca, w.caKey, nd.name, time.Now().Add(-time.Hour), time.Now().Add(1000*time.Hour),
			[]netip.Prefix{netip.PrefixFrom(nd.vpn, 24)}, nil, []string{"g" + fmt.Sprint(i%2)})
	}
	nd.crt, nd.key = crt, key
	ctl, _, _, cfg := newServer([]cert.Certificate{w.ca}, []cert.Certificate{crt}, key, ov)
	nd.ctl, nd.cfg = ctl, cfg
	addr := nd.udp.Addr()
	ctl.SetLocalAddrsFn(func(*nebula.LocalAllowList) []netip.Addr { return []netip.Addr{addr} })
	// drain what the node emits, so that its writers never block on the channel-backed socket and tun
	tunc := ctl.GetTunTxChan()
	txcs := ctl.GetUDPTxChans() // one socket per reader routine when the run uses several (udp.TesterMultiReader)
	nd.queues = 1
	if udp.TesterMultiReader.Load() {
		nd.queues = len(txcs) // (without it Main still opens `routines` sockets, but only the first one has a reader)
	}
	for _, txc := range txcs {
		go func() {
			for {
				select {
				case <-nd.quit:
					return
				case p := <-txc:
					nd.mu.Lock()
					nd.udpOut = append(nd.udpOut, p.Copy())
					nd.mu.Unlock()
					p.Release()
				}
			}
		}()
	}
	go func() {
		for {
			select {
			case <-nd.quit:
				return
			case _, ok := <-tunc:
				if !ok {
					nd.tunClosed.Store(true)
					return
				}
				nd.mu.Lock()
				nd.tunIn++
				nd.mu.Unlock()
			}
		}
	}()
	return nd
}

func (w *liveWorld) nodeByUDP(a netip.AddrPort) int {
	for i, nd := range w.nodes {
		if nd.udp == a {
			return i
		}
	}
	return -1
}

// collect moves what the nodes emitted since the last call into the simulated network.
func (w *liveWorld) collect() {
	tp, rc := w.tp, w.rc
	all := append(append([]*liveNode(nil), w.nodes...), w.old...)
	for _, nd := range all {
		nd.mu.Lock()
		out := nd.udpOut
		nd.udpOut = nil
		nd.mu.Unlock()
		for _, p := range out {
			to := w.nodeByUDP(p.To)
			if to < 0 {
				rc.Count("net.no_such_host", 1)
				continue
			}
			a, b := nd.idx, to
			if a > b {
				a, b = b, a
			}
			if w.blocked[[2]int{a, b}] {
				rc.Count("fault.partition_drop", 1)
				continue
			}
			if tp.Chance(w.dropPct, 100) {
				rc.Count("fault.drop", 1)
				continue
			}
			d := time.Duration(1+tp.Choose(5)) * time.Millisecond
			if tp.Chance(w.longPct, 100) {
				d = time.Duration(200+tp.Choose(3000)) * time.Millisecond
				rc.Count("fault.long_delay", 1)
			} else if tp.Chance(1, 6) {
				d += time.Duration(tp.Choose(40)) * time.Millisecond
				rc.Count("fault.jitter", 1)
			}
			w.seq++
			w.inflight = append(w.inflight, &flight{p: p, to: to, at: w.now() + d, seq: w.seq})
			if tp.Chance(w.dupPct, 100) {
				w.seq++
				w.inflight = append(w.inflight, &flight{p: p.Copy(), to: to, at: w.now() + d + time.Duration(tp.Choose(30))*time.Millisecond, seq: w.seq})
				rc.Count("fault.duplicate", 1)
			}
		}
	}
	sort.SliceStable(w.inflight, func(i, j int) bool {
		if w.inflight[i].at != w.inflight[j].at {
			return w.inflight[i].at < w.inflight[j].at
		}
		return w.inflight[i].seq < w.inflight[j].seq
	})
}

// settle waits until every launched stimulus has returned, collecting output meanwhile.
func (w *liveWorld) settle(stims []*stim, limit time.Duration) bool {
	waited := time.Duration(0)
	for {
		synctest.Wait()
		w.rc.Progress()
		w.collect()
		var stuck []string
		for _, s := range stims {
			if !s.done.Load() {
				stuck = append(stuck, s.name)
			}
		}
		if len(stuck) == 0 {
			return true
		}
		if waited >= limit {
			w.rc.Fail("stuck:"+stimKind(stuck[0]), "after %v of simulated time these calls have still not returned: %v\nblocked goroutines:\n%s", limit, stuck, blockedSummary())
			return false
		}
		time.Sleep(20 * time.Millisecond)
		waited += 20 * time.Millisecond
	}
}

func stimKind(name string) string {
	if i := strings.IndexByte(name, ':'); i > 0 {
		return name[:i]
	}
	return name
}

func (w *liveWorld) launch(ss []*stim) {
	for _, s := range ss {
		s := s
		w.kinds[stimKind(s.name)]++
		go func() {
			s.run()
			s.done.Store(true)
		}()
	}
}

func (w *liveWorld) liveNodes() []*liveNode {
	var o []*liveNode
	for _, nd := range w.nodes {
		if nd.started && !nd.stopping {
			o = append(o, nd)
		}
	}
	return o
}

func (w *liveWorld) reloadStim(nd *liveNode) *stim {
	tp := w.tp
	raw, _ := yaml.Marshal(nd.cfg.Settings)
	var cur m
	yaml.Unmarshal(raw, &cur)
	sub := func(k string) m {
		if v, ok := cur[k].(m); ok {
			return v
		}
		v := m{}
		cur[k] = v
		return v
	}
	kind := tp.Choose(9)
	switch kind {
	case 0:
		fw := sub("firewall")
		rules := []any{m{"proto": "any", "port": "any", "host": "any"}}
		if tp.Chance(1, 2) {
			rules = append(rules, m{"proto": "udp", "port": fmt.Sprintf("%d-%d", 1000+tp.Choose(100), 2000+tp.Choose(100)), "group": "g0"})
		}
		fw["inbound"] = rules
		fw["conntrack"] = m{"udp_timeout": fmt.Sprintf("%ds", 30+tp.Choose(200))}
	case 1:
		sub("lighthouse")["interval"] = 1 + tp.Choose(8)
	case 2:
		r := sub("relay")
		if nd.idx == 0 {
			r["am_relay"] = tp.Chance(3, 4)
		} else {
			r["use_relays"] = tp.Chance(3, 4)
		}
	case 3:
		p := sub("punchy")
		p["punch"] = tp.Chance(1, 2)
		p["respond"] = tp.Chance(1, 2)
	case 4:
		if tp.Chance(1, 2) {
			cur["preferred_ranges"] = []any{"10.0.0.0/24"}
		} else {
			delete(cur, "preferred_ranges")
		}
	case 5:
		sub("handshakes")["try_interval"] = []string{"100ms", "40ms", "300ms"}[tp.Choose(3)]
	case 6:
		tn := sub("tunnels")
		tn["drop_inactive"] = tp.Chance(1, 2)
		tn["inactivity_timeout"] = []string{"2s", "5s", "20s"}[tp.Choose(3)]
	case 7:
		// re-issued certificate: same key and networks, other groups
		nc := reissue(nd.crt, w.ca, w.caKey, []string{"g" + fmt.Sprint(tp.Choose(3)), "reissued"})
		pem, _ := nc.MarshalPEM()
		sub("pki")["cert"] = string(pem)
	case 8:
		if nd.idx != 0 && w.useLH {
			sm := sub("static_host_map")
			sm[overlayOf(0).String()] = []any{underlayOf(0).String(), "10.0.9.9:4242"}[:1+tp.Choose(2)]
		} else {
			sub("lighthouse")["local_allow_list"] = m{"10.0.0.0/8": true}
		}
	}
	y, _ := yaml.Marshal(cur)
	cfg := nd.cfg
	return &stim{name: fmt.Sprintf("reload:%d:n%d", kind, nd.idx), node: nd.idx, run: func() { cfg.ReloadConfigString(string(y)) }}
}

func reissue(c cert.Certificate, ca cert.Certificate, caKey []byte, groups []string) cert.Certificate {
	nc := &cert.TBSCertificate{Version: c.Version(), Curve: c.Curve(), Name: c.Name(), Networks: c.Networks(), UnsafeNetworks: c.UnsafeNetworks(),
		Groups: groups, NotBefore: time.Unix(c.NotBefore().Unix(), 0), NotAfter: time.Unix(c.NotAfter().Unix(), 0), PublicKey: c.PublicKey()}
	out, err := nc.Sign(ca, ca.Curve(), caKey)
	if err != nil {
		panic(err)
	}
	return out
}

func (w *liveWorld) stopStim(nd *liveNode) []*stim {
	nd.stopping = true
	nd.stopAt = w.now()
	ctl := nd.ctl
	ss := []*stim{{name: fmt.Sprintf("stop:n%d", nd.idx), node: nd.idx, run: func() {
		ctl.Stop()
		nd.stopDone.Store(true)
		ctl.Wait()
		nd.waitDone.Store(true)
	}}}
	if w.tp.Chance(1, 5) {
		// a second, concurrent Stop must be harmless
		ss = append(ss, &stim{name: fmt.Sprintf("stop2:n%d", nd.idx), node: nd.idx, run: func() { ctl.Stop() }})
		w.rc.Count("probe.double_stop", 1)
	}
	return ss
}

func (w *liveWorld) phaseOf(nd *liveNode) string {
	if !nd.started {
		return "before_start"
	}
	pend := len(nd.ctl.ListHostmapHosts(true))
	est := nd.ctl.ListHostmapHosts(false)
	relayed := false
	for _, h := range est {
		if len(h.CurrentRelaysToMe) > 0 || len(h.CurrentRelaysThroughMe) > 0 {
			relayed = true
		}
	}
	switch {
	case relayed:
		return "relayed_tunnels"
	case pend > 0 && len(est) > 0:
		return "handshaking_with_live_tunnels"
	case pend > 0:
		return "handshaking"
	case len(est) > 0:
		return "live_tunnels"
	}
	return "idle"
}

func runLive(rc *sk.RunCtx, focus string) {
	tp := rc.Tape
	w := &liveWorld{rc: rc, tp: tp, focus: focus, start: time.Now(), blocked: map[[2]int]bool{}, kinds: map[string]int{}, connsAtStart: udp.TesterConnsOpen()}
	n := 2 + tp.Choose(3)
	// half of the runs let `routines` > 1 mean what it means on Linux: that many sockets, each with its own reader
	// goroutine (the test double's default is one reader whatever the setting)
	multi := tp.Chance(1, 2)
	udp.TesterMultiReader.Store(multi)
	defer udp.TesterMultiReader.Store(false)
	w.useLH = n > 2 && tp.Chance(3, 4)
	curve := cert.Curve_CURVE25519
	if tp.Chance(1, 5) {
		curve = cert.Curve_P256
	}
	cv := cert.Version2
	if tp.Chance(1, 4) {
		cv = cert.Version1
	}
	w.ca, _, w.caKey, _ = cert_test.NewTestCaCert(cv, curve, time.Now().Add(-2*time.Hour), time.Now().Add(2000*time.Hour), nil, nil, nil)
	w.dropPct = []int{0, 0, 3, 10, 25}[tp.Choose(5)]
	w.dupPct = []int{0, 0, 5, 15}[tp.Choose(4)]
	w.longPct = []int{0, 1, 4}[tp.Choose(3)]
	if w.useLH && n > 2 {
		for i := 1; i < n; i++ {
			for j := i + 1; j < n; j++ {
				if tp.Chance(1, 2) {
					w.blocked[[2]int{i, j}] = true // no direct path: the pair needs the relay
				}
			}
		}
	}
	horizon := time.Duration(3+tp.Choose(10)) * time.Second
	if rc.Thorough() {
		horizon = time.Duration(5+tp.Choose(40)) * time.Second
	}
	rc.Logf("live n=%d lh=%v curve=%v v=%v drop=%d dup=%d long=%d blocked=%d horizon=%v focus=%s", n, w.useLH, curve, cv, w.dropPct, w.dupPct, w.longPct, len(w.blocked), horizon, focus)

	for i := 0; i < n; i++ {
		ov := w.overrides(i, n)
		w.routines = append(w.routines, ov["routines"])
		w.nodes = append(w.nodes, w.newNode(i, 0, nil, nil, ov))
	}
	lateStart := map[int]time.Duration{}
	for _, nd := range w.nodes {
		if focus == "stop" && tp.Chance(1, 8) {
			lateStart[nd.idx] = time.Duration(tp.Choose(3000)) * time.Millisecond // maybe stopped before it is ever started
			continue
		}
		if err := nd.ctl.Start(); err != nil {
			rc.HarnessError("start: %v", err)
			return
		}
		nd.started = true
	}
	stopsWithState := 0
	maxSimul := 0
	rounds := 0
	for w.now() < horizon && !rc.Failed() && rounds < 4000 {
		rounds++
		var ss []*stim
		// 1. deliveries that are due, one goroutine per destination
		due := map[int][]*udp.Packet{}
		k := 0
		for k < len(w.inflight) && w.inflight[k].at <= w.now() {
			f := w.inflight[k]
			nd := w.nodes[f.to]
			if nd.started {
				due[f.to] = append(due[f.to], f.p)
			} else {
				rc.Count("net.host_down_drop", 1)
			}
			k++
		}
		w.inflight = w.inflight[k:]
		for i := range w.nodes {
			if ps := due[i]; len(ps) > 0 {
				ctl := w.nodes[i].ctl
				nq := w.nodes[i].queues
				if nq <= 1 {
					ss = append(ss, &stim{name: fmt.Sprintf("deliver:n%d", i), node: i, run: func() {
						for _, p := range ps {
							ctl.InjectUDPPacket(p)
						}
					}})
				} else {
					// several reader routines: the kernel spreads datagrams over the sockets (by flow hash, which a
					// roaming or multi-homed peer changes at will): each packet goes to a tape-chosen socket, one
					// delivering goroutine per socket, so packets of one tunnel meet in different readers at once
					perQ := make([][]*udp.Packet, nq)
					for _, p := range ps {
						q := tp.Choose(nq)
						perQ[q] = append(perQ[q], p)
					}
					for q, qs := range perQ {
						if len(qs) == 0 {
							continue
						}
						ss = append(ss, &stim{name: fmt.Sprintf("deliver:n%d.q%d", i, q), node: i, run: func() {
							for _, p := range qs {
								ctl.InjectUDPPacketOn(q, p)
							}
						}})
					}
					rc.Count("probe.multi_reader_deliveries", int64(len(ps)))
				}
				rc.Count("net.delivered", int64(len(ps)))
			}
		}
		// 2. late starts
		for i, at := range lateStart {
			_ = i
			_ = at
		}
		for _, nd := range w.nodes {
			if at, ok := lateStart[nd.idx]; ok && !nd.started && !nd.stopping && w.now() >= at {
				delete(lateStart, nd.idx)
				if err := nd.ctl.Start(); err != nil {
					rc.HarnessError("late start: %v", err)
					return
				}
				nd.started = true
			}
		}
		// 3. further stimuli of this burst
		nstim := tp.Weighted(3, 4, 3, 2, 1, 1)
		for s := 0; s < nstim; s++ {
			live := w.liveNodes()
			if len(live) == 0 {
				break
			}
			nd := live[tp.Choose(len(live))]
			other := w.nodes[tp.Choose(len(w.nodes))]
			if len(w.blocked) > 0 && tp.Chance(1, 2) {
				// prefer a peer without a direct path: the traffic (and whatever is done to the tunnel) goes through the relay
				for _, cand := range w.nodes {
					a, b := nd.idx, cand.idx
					if a > b {
						a, b = b, a
					}
					if cand != nd && w.blocked[[2]int{a, b}] {
						other = cand
						break
					}
				}
			}
			ctl := nd.ctl
			var kind int
			if focus == "stop" {
				kind = tp.Weighted(10, 3, 2, 1, 2, 1, 1, 3, 1)
			} else {
				kind = tp.Weighted(10, 5, 4, 3, 5, 2, 2, 1, 2)
			}
			switch kind {
			case 0: // application traffic
				if tp.Chance(1, 6) {
					// a burst to hosts nobody has: many pending handshakes and lighthouse queries at once
					cnt := 2 + tp.Choose(8)
					pkts := make([][]byte, cnt)
					for c := range pkts {
						dst := netip.AddrFrom4([4]byte{10, 128, 0, byte(60 + tp.Choose(60))})
						pkts[c] = BuildTunUDPPacket(dst, 80, nd.vpn, 80, []byte("to-nobody"))
					}
					ss = append(ss, &stim{name: fmt.Sprintf("tun:n%d>unknown", nd.idx), node: nd.idx, run: func() {
						for _, p := range pkts {
							ctl.InjectTunPacket(p)
						}
					}})
					continue
				}
				if other == nd {
					continue
				}
				cnt := 1 + tp.Choose(4)
				pkts := make([][]byte, cnt)
				for c := range pkts {
					// a handful of symmetric port pairs: traffic i->j and j->i belongs to the same tracked flow on both
					// nodes, so the tun reader and the udp reader of one node work on one conntrack entry
					ports := []uint16{53, 80, 443}
					pkts[c] = BuildTunUDPPacket(other.vpn, ports[tp.Choose(3)], nd.vpn, ports[tp.Choose(3)], []byte(fmt.Sprintf("payload-%d-%d", rounds, c)))
				}
				w.tunSent += cnt
				ss = append(ss, &stim{name: fmt.Sprintf("tun:n%d>n%d", nd.idx, other.idx), node: nd.idx, run: func() {
					for _, p := range pkts {
						ctl.InjectTunPacket(p)
					}
				}})
			case 1:
				ss = append(ss, w.reloadStim(nd))
			case 2: // close a tunnel
				lo := tp.Chance(1, 2)
				to := other.vpn
				ss = append(ss, &stim{name: fmt.Sprintf("close:n%d-n%d", nd.idx, other.idx), node: nd.idx, run: func() { ctl.CloseTunnel(to, lo) }})
			case 3: // rehandshake / create
				to := other.vpn
				if tp.Chance(1, 2) {
					ss = append(ss, &stim{name: fmt.Sprintf("rehandshake:n%d-n%d", nd.idx, other.idx), node: nd.idx, run: func() { ctl.ReHandshake(to) }})
				} else if other != nd {
					ss = append(ss, &stim{name: fmt.Sprintf("create:n%d-n%d", nd.idx, other.idx), node: nd.idx, run: func() { ctl.CreateTunnel(to) }})
				}
			case 4: // read-side control API (what sshd / a mobile embedder call from their own goroutines)
				to := other.vpn
				which := tp.Choose(6)
				ss = append(ss, &stim{name: fmt.Sprintf("api:%d:n%d", which, nd.idx), node: nd.idx, run: func() {
					switch which {
					case 0:
						ctl.ListHostmapHosts(false)
						ctl.ListHostmapHosts(true)
					case 1:
						ctl.ListHostmapIndexes(false)
						ctl.ListHostmapIndexes(true)
					case 2:
						ctl.PrintTunnel(to)
					case 3:
						ctl.GetHostInfoByVpnAddr(to, false)
						ctl.GetHostInfoByVpnAddr(to, true)
					case 4:
						ctl.QueryLighthouse(to)
					case 5:
						ctl.GetCertByVpnIp(to)
					}
				}})
			case 5:
				ss = append(ss, &stim{name: fmt.Sprintf("rebind:n%d", nd.idx), node: nd.idx, run: func() { ctl.RebindUDPServer() }})
			case 6:
				ex := tp.Chance(1, 2)
				ss = append(ss, &stim{name: fmt.Sprintf("closeall:n%d", nd.idx), node: nd.idx, run: func() { ctl.CloseAllTunnels(ex) }})
			case 7: // stop (and maybe restart later)
				if focus != "stop" && len(live) <= 2 {
					continue
				}
				ph := w.phaseOf(nd)
				rc.Count("probe.stop_phase."+ph, 1)
				if ph != "idle" && ph != "before_start" {
					stopsWithState++
				}
				for _, o := range ss {
					if o.node == nd.idx && strings.HasPrefix(o.name, "reload") {
						rc.Count("probe.stop_phase.during_reload", 1)
					}
				}
				// the tun test double must not be fed while it is being closed
				kept := ss[:0]
				for _, o := range ss {
					if !(o.node == nd.idx && strings.HasPrefix(o.name, "tun:")) {
						kept = append(kept, o)
					}
				}
				ss = append(kept, w.stopStim(nd)...)
			case 8: // partition flip
				if len(w.nodes) > 1 && other != nd {
					a, b := nd.idx, other.idx
					if a > b {
						a, b = b, a
					}
					key := [2]int{a, b}
					if w.blocked[key] {
						delete(w.blocked, key)
						rc.Count("fault.heal", 1)
					} else {
						w.blocked[key] = true
						rc.Count("fault.partition", 1)
					}
				}
			}
		}
		// stop of a never-started node
		if focus == "stop" {
			for _, nd := range w.nodes {
				if _, late := lateStart[nd.idx]; late && !nd.started && !nd.stopping && tp.Chance(1, 6) {
					rc.Count("probe.stop_phase.before_start", 1)
					delete(lateStart, nd.idx)
					ss = append(ss, w.stopStim(nd)...)
				}
			}
		}
		perNode := map[int]int{}
		for _, s := range ss {
			perNode[s.node]++
			if perNode[s.node] > maxSimul {
				maxSimul = perNode[s.node]
			}
		}
		w.launch(ss)
		if !w.settle(ss, 30*time.Second) {
			break
		}
		// 4. checks on nodes whose stop has been launched; restart of some
		for i, nd := range w.nodes {
			if !nd.stopping {
				continue
			}
			if !w.checkStopped(nd) {
				break
			}
			if tp.Chance(1, 3) && w.now() < horizon-2*time.Second {
				// restart: a fresh instance with the same identity and address
				w.old = append(w.old, nd)
				nn := w.newNode(nd.idx, nd.gen+1, nd.crt, nd.key, nd.ov)
				if err := nn.ctl.Start(); err != nil {
					rc.HarnessError("restart: %v", err)
					return
				}
				nn.started = true
				w.nodes[i] = nn
				rc.Count("probe.restarts", 1)
			}
		}
		if rc.Failed() {
			break
		}
		// 5. advance the clock: to the next delivery or by a drawn step, whichever is sooner
		step := []time.Duration{0, time.Millisecond, 5 * time.Millisecond, 20 * time.Millisecond, 100 * time.Millisecond, 400 * time.Millisecond, 1500 * time.Millisecond}[tp.Weighted(2, 3, 3, 3, 3, 2, 1)]
		if len(w.inflight) > 0 {
			if d := w.inflight[0].at - w.now(); d < step {
				step = d
			}
		}
		if step > 0 {
			time.Sleep(step)
		}
	}
	rc.AddSimTime(w.now())

	// teardown: stop everything that still runs (concurrently), then look for what is left
	var ss []*stim
	for _, nd := range w.nodes {
		if !nd.stopping {
			if nd.started {
				rc.Count("probe.stop_phase.final_"+w.phaseOf(nd), 1)
			}
			ss = append(ss, w.stopStim(nd)...)
		}
	}
	w.launch(ss)
	if !rc.Failed() {
		if w.settle(ss, 30*time.Second) {
			for _, nd := range w.nodes {
				if !w.checkStopped(nd) {
					break
				}
			}
		}
	} else {
		for i := 0; i < 50; i++ {
			synctest.Wait()
			time.Sleep(100 * time.Millisecond)
		}
	}
	time.Sleep(90 * time.Second) // let every pending timer of the stopped nodes fire
	synctest.Wait()
	for _, nd := range append(append([]*liveNode(nil), w.nodes...), w.old...) {
		close(nd.quit)
	}
	synctest.Wait()
	if focus == "stop" && !rc.Failed() {
		if left := bubbleGoroutines(); len(left) > 0 {
			rc.Fail("leak:"+leakSite(left[0]), "%d goroutine(s) still exist after every node was stopped and 90 s passed; first:\n%s", len(left), trimBlock(left[0]))
		} else if open := udp.TesterConnsOpen() - w.connsAtStart; open != 0 {
			rc.Fail("socket-leak", "%d UDP socket(s) opened by the nodes of this run are still open after every node was stopped (routines settings %v)", open, w.routines)
		}
	}
	delivered := 0
	for _, nd := range append(append([]*liveNode(nil), w.nodes...), w.old...) {
		nd.mu.Lock()
		delivered += nd.tunIn
		nd.mu.Unlock()
	}
	rc.Count("probe.tun_sent", int64(w.tunSent))
	rc.Count("probe.tun_delivered", int64(delivered))
	rc.Count("probe.rounds", int64(rounds))
	for k, v := range w.kinds {
		rc.Count("stimulus."+k, int64(v))
	}
	var ks []string
	for k := range w.kinds {
		ks = append(ks, k)
	}
	sort.Strings(ks)
	rc.TraceQuiet(fmt.Sprintf("n=%d lh=%v kinds=%v delivered=%d", n, w.useLH, ks, delivered > 0))
	if focus == "stop" {
		if stopsWithState > 0 {
			rc.Nontrivial()
		}
	} else if delivered > 0 && maxSimul >= 2 && len(w.kinds) >= 4 {
		rc.Nontrivial()
	}
	rc.Sample(map[string]any{"nodes": n, "lighthouse_relay_topology": w.useLH, "rounds": rounds, "simulated": w.now().String(), "stimuli": w.kinds,
		"max_simultaneous_stimuli_on_one_node": maxSimul, "tun_sent": w.tunSent, "tun_delivered": delivered})
}

// checkStopped: Stop returned, Wait returned, the tun is closed and the socket refuses writes.
func (w *liveWorld) checkStopped(nd *liveNode) bool {
	rc := w.rc
	if w.focus != "stop" {
		return true
	}
	if !nd.stopDone.Load() {
		rc.Fail("stop-hangs", "Control.Stop on %s had not returned %v after it was called", nd.name, w.now()-nd.stopAt)
		return false
	}
	for i := 0; i < 250 && !(nd.waitDone.Load() && nd.tunClosed.Load()); i++ {
		time.Sleep(20 * time.Millisecond)
		synctest.Wait()
	}
	if !nd.waitDone.Load() {
		rc.Fail("wait-hangs", "Control.Wait on %s had not returned 5 s after Stop returned: packet goroutines are still running\n%s", nd.name, blockedSummary())
		return false
	}
	if !nd.tunClosed.Load() {
		rc.Fail("tun-open", "the tun device of %s is still open after Stop and Wait returned", nd.name)
		return false
	}
	// the socket: a closed conn swallows injected packets at once; an open one without a reader blocks after 10
	var done atomic.Bool
	ctl := nd.ctl
	p := &udp.Packet{To: nd.udp, From: underlayOf(9), Data: []byte{0, 0, 0, 0, 0, 0, 0, 0, 0, 0, 0, 0, 0, 0, 0, 0}}
	nq := max(1, nd.queues)
	go func() {
		for q := 0; q < nq; q++ { // every socket the node opened
			for i := 0; i < 12; i++ {
				ctl.InjectUDPPacketOn(q, p)
			}
		}
		done.Store(true)
	}()
	synctest.Wait()
	if !done.Load() {
		rc.Fail("socket-open", "the UDP socket of %s is still open after Stop and Wait returned", nd.name)
		return false
	}
	if nd.ctl.State() != nebula.StateStopped {
		rc.Fail("state", "%s reports state %v after Stop returned", nd.name, nd.ctl.State())
		return false
	}
	return true
}

// ---------------------------------------------------------------------------
// goroutine inspection

func allStacks() []string {
	buf := make([]byte, 16<<20)
	buf = buf[:runtime.Stack(buf, true)]
	return strings.Split(string(buf), "\n\n")
}

func isHarnessBlock(b string) bool {
	return strings.Contains(b, "synctest.Run") || strings.Contains(b, "testing.tRunner") || strings.Contains(b, "testing.(*T).Run") ||
		strings.Contains(b, "verifsimkit.RunOne") || strings.Contains(b, "testing/synctest.Test")
}

// bubbleGoroutines lists the goroutines of the current bubble other than the caller and the test plumbing.
func bubbleGoroutines() []string {
	bl := allStacks()
	var o []string
	mine := "" // the caller's "synctest bubble N": goroutines stranded in the dead bubbles of earlier runs do not count
	for i, b := range bl {
		nl := strings.IndexByte(b, '\n')
		if i == 0 {
			if nl > 0 {
				if k := strings.Index(b[:nl], "synctest bubble "); k >= 0 {
					mine = strings.TrimRight(b[k:nl], "]:")
				}
			}
			continue // the caller
		}
		if nl < 0 || mine == "" || !strings.Contains(b[:nl], mine+"]") || isHarnessBlock(b) {
			continue
		}
		o = append(o, b)
	}
	return o
}

func frames(b string) []string {
	lines := strings.Split(b, "\n")
	var fr []string
	for i := 1; i < len(lines); i += 2 {
		fn := lines[i]
		if strings.HasPrefix(fn, "created by ") {
			fn = strings.TrimPrefix(fn, "created by ")
			if k := strings.Index(fn, " in goroutine"); k > 0 {
				fn = fn[:k]
			}
			fr = append(fr, "created-by:"+fn)
			continue
		}
		if k := strings.LastIndexByte(fn, '('); k > 0 {
			fn = fn[:k]
		}
		fr = append(fr, fn)
	}
	return fr
}

func leakSite(b string) string {
	for _, f := range frames(b) {
		if strings.Contains(f, "slackhq/nebula") && !strings.HasPrefix(f, "created-by:") {
			return strings.TrimPrefix(f, "github.com/slackhq/nebula")
		}
	}
	for _, f := range frames(b) {
		if strings.HasPrefix(f, "created-by:") {
			return f
		}
	}
	return "unknown"
}

func trimBlock(b string) string {
	lines := strings.Split(b, "\n")
	if len(lines) > 24 {
		lines = lines[:24]
	}
	return strings.Join(lines, "\n")
}

// blockedSummary: bubble goroutines that are inside nebula code, with their top frames.
func blockedSummary() string {
	var o []string
	for _, b := range bubbleGoroutines() {
		fr := frames(b)
		var keep []string
		for _, f := range fr {
			if strings.HasPrefix(f, "runtime.") || strings.HasPrefix(f, "internal/") {
				continue
			}
			keep = append(keep, strings.TrimPrefix(f, "github.com/slackhq/nebula"))
			if len(keep) >= 5 {
				break
			}
		}
		nl := strings.IndexByte(b, '\n')
		o = append(o, b[:nl]+" "+strings.Join(keep, " < "))
		if len(o) >= 14 {
			break
		}
	}
	return strings.Join(o, "\n")
}

// ---------------------------------------------------------------------------
// race detector oracle: GORACE=log_path=<p> makes the runtime append its reports
// to <p>.<pid>; after each run the new part of that file is this run's.

var raceOff int64

func raceLogPath() string {
	for _, kv := range strings.Fields(os.Getenv("GORACE")) {
		if strings.HasPrefix(kv, "log_path=") {
			return fmt.Sprintf("%s.%d", strings.TrimPrefix(kv, "log_path="), os.Getpid())
		}
	}
	return ""
}

func readNewRaceLog() string {
	p := raceLogPath()
	if p == "" {
		return ""
	}
	raw, err := os.ReadFile(p)
	if err != nil || int64(len(raw)) <= raceOff {
		return ""
	}
	part := raw[raceOff:]
	raceOff = int64(len(raw))
	return string(part)
}

func raceSkip(rc *sk.RunCtx) { readNewRaceLog() }

func raceOracle(rc *sk.RunCtx) {
	if raceLogPath() == "" {
		rc.HarnessError("GORACE log_path is not set: the race oracle cannot see reports")
		return
	}
	txt := readNewRaceLog()
	if txt == "" || rc.Failed() {
		return
	}
	reports := strings.Split(txt, "WARNING: DATA RACE")
	for _, rep := range reports[1:] {
		sig, kind := raceSignature(rep)
		switch kind {
		case "stub":
			// the memory belongs to nebula's channel-backed test doubles (socket / tun), not to nebula
			rc.Count("probe.race_reports_inside_test_doubles_ignored", 1)
			continue
		case "harness":
			rc.HarnessError("the race detector flagged the harness itself:\n%s", clip(rep, 3000))
			return
		}
		rc.FailAlso("data-race:"+sig, "the race detector reported unsynchronised access between %s\n%s", sig, clip(rep, 7000))
	}
}

func clip(s string, n int) string {
	if len(s) > n {
		return s[:n] + "\n..."
	}
	return s
}

// raceSignature names the first nebula function of each of the two access
// stacks. kind is "stub" when the innermost frame of an access lies in one of
// nebula's test doubles (*_tester.go: the memory raced on is the double's),
// "harness" when no access stack contains nebula code at all, "" otherwise.
func raceSignature(rep string) (string, string) {
	var sites []string
	stub := false
	secs := bytes.Split([]byte(rep), []byte("\n\n"))
	for _, sec := range secs {
		lines := strings.Split(strings.TrimSpace(string(sec)), "\n")
		if len(lines) == 0 {
			continue
		}
		h := lines[0]
		if !(strings.Contains(h, " at 0x") && strings.Contains(h, "by ")) {
			continue // goroutine creation stacks etc.
		}
		site := ""
		first := true
		for i := 1; i+1 < len(lines); i += 2 {
			fn := strings.TrimSpace(lines[i])
			file := strings.TrimSpace(lines[i+1])
			if strings.HasPrefix(fn, "runtime.") || strings.HasPrefix(fn, "sync.") || strings.HasPrefix(fn, "sync/atomic.") {
				continue
			}
			if first {
				first = false
				if strings.Contains(file, "_tester.go") {
					stub = true
				}
			}
			if !strings.Contains(fn, "github.com/slackhq/nebula") {
				continue
			}
			if strings.Contains(file, "zz_verif_") || strings.Contains(file, "_test.go") || strings.Contains(file, "_tester.go") || strings.Contains(fn, "verifsimkit") {
				continue
			}
			if k := strings.LastIndexByte(fn, '('); k > 0 {
				fn = fn[:k]
			}
			site = strings.TrimPrefix(fn, "github.com/slackhq/nebula")
			break
		}
		sites = append(sites, site)
		if len(sites) == 2 {
			break
		}
	}
	if stub {
		return "", "stub"
	}
	real := 0
	for _, s := range sites {
		if s != "" {
			real++
		}
	}
	if real == 0 {
		return "", "harness"
	}
	sort.Strings(sites)
	return strings.Join(sites, "|"), ""
}

package handshake

// Scenario family "S-hs" (engine C): several identities talk through real
// handshake.Machines with an attacker in the middle. Honest identities, one
// under an untrusted CA, one expired, one not yet valid, one blocklisted, one
// blocklisted through its P-256 twin fingerprint, and a thief presenting another
// identity's certificate with its own static key. The attacker drops,
// duplicates, reorders, truncates, bit-flips, splices across sessions and
// replays every message, and rewrites the certificate bytes that travel in the
// clear in the first message. Ground truth is known to the simulator.
//
// One world, four properties: C05 (completion only with an authenticated peer),
// C06 (both ends agree), C07 (a rejected message never wedges), C02 (tampered
// certificates are rejected).

import (
	"bytes"
	"encoding/binary"
	"encoding/hex"
	"errors"
	"fmt"
	"net/netip"
	"slices"
	"strings"
	"time"

	"github.com/flynn/noise"
	"github.com/slackhq/nebula/cert"
	"github.com/slackhq/nebula/cert/p256"
	ct "github.com/slackhq/nebula/cert_test"
	"github.com/slackhq/nebula/header"
	sk "github.com/slackhq/nebula/internal/verifsimkit"
	"github.com/slackhq/nebula/noiseutil"
)

func init() {
	for _, p := range []string{"C02", "C05", "C06", "C07"} {
		p := p
		sk.Register(p+".hs", sk.Scenario{Run: func(rc *sk.RunCtx) { runSHS(rc, p) }})
	}
}

type shsIdent struct {
	name    string
	kind    string
	creds   map[cert.Version]*Credential
	certs   map[cert.Version]cert.Certificate
	defV    cert.Version
	pub     []byte
	issuer  cert.Certificate
	trusted bool // issuer is in the pool
	blocked bool // blocklisted directly or through its twin fingerprint
}

func (id *shsIdent) getCred(v cert.Version) *Credential { return id.creds[v] }

// acceptable is the ground truth of the trust rule for this identity at time t.
func (id *shsIdent) acceptable(t time.Time, v cert.Version) bool {
	c := id.certs[v]
	if c == nil || !id.trusted || id.blocked || id.kind == "thief" || id.kind == "impostor" || id.kind == "garbler" {
		return false
	}
	if c.Expired(t) || id.issuer.Expired(t) {
		return false
	}
	return true
}

type fakePubCert struct {
	cert.Certificate
	pub []byte
}

func (f fakePubCert) PublicKey() []byte { return f.pub }

type shsResp struct {
	id      *shsIdent
	m       *Machine
	in      []byte // exact bytes of the first message it processed
	out     []byte // its reply
	res     *Result
	err     error
	acc     *cert.CachedCertificate
	genuine *shsInit // the session whose unmodified first message this is, if any
}

type shsInit struct {
	n        int
	id       *shsIdent
	m        *Machine
	msg1     []byte
	res      *Result
	rejected []string // variants rejected while the machine stayed usable
	failed   bool
	acc      *cert.CachedCertificate
	by       *shsResp // responder whose reply completed this session
}

type shsMsg struct {
	stage   int
	data    []byte
	kind    string // "genuine" or the mutation class
	fromI   *shsInit
	fromR   *shsResp
	certMut bool
}

type shsWorld struct {
	rc     *sk.RunCtx
	tp     *sk.Tape
	focus  string
	curve  cert.Curve
	suite  noise.CipherSuite
	dhLen  int
	pool   *cert.CAPool
	ids    []*shsIdent
	inits  []*shsInit
	resps  []*shsResp
	msgs   []*shsMsg
	t0     time.Time
	counts map[string]int
}

func (w *shsWorld) fail(prop, class, format string, a ...any) {
	if prop != w.focus {
		w.rc.Count("probe.other_property_oracle_fired."+prop, 1)
		return
	}
	w.rc.Fail(class, format, a...)
}

func runSHS(rc *sk.RunCtx, focus string) {
	tp := rc.Tape
	w := &shsWorld{rc: rc, tp: tp, focus: focus, t0: time.Now(), counts: map[string]int{}}
	w.curve = cert.Curve_CURVE25519
	dh := noise.DH25519
	w.dhLen = 32
	if tp.Chance(1, 3) {
		w.curve = cert.Curve_P256
		dh = noiseutil.DHP256
		w.dhLen = 65
	}
	cipher := noise.CipherChaChaPoly
	cname := "chacha"
	if tp.Chance(1, 2) {
		cipher = noiseutil.CipherAESGCM
		cname = "aes"
	}
	w.suite = noise.NewCipherSuite(dh, cipher, noise.HashSHA256)
	now := time.Now()
	caV := cert.Version2
	if tp.Chance(1, 3) {
		caV = cert.Version1
	}
	ca, _, caKey, _ := ct.NewTestCaCert(caV, w.curve, now.Add(-time.Hour), now.Add(100*time.Hour), nil, nil, nil)
	ca2, _, ca2Key, _ := ct.NewTestCaCert(caV, w.curve, now.Add(-time.Hour), now.Add(100*time.Hour), nil, nil, nil)
	w.pool = ct.NewTestCAPool(ca)

	mk := func(name, kind string, issuer cert.Certificate, key []byte, before, after time.Time, versions []cert.Version) *shsIdent {
		id := &shsIdent{name: name, kind: kind, creds: map[cert.Version]*Credential{}, certs: map[cert.Version]cert.Certificate{}, issuer: issuer}
		nets := []netip.Prefix{netip.PrefixFrom(netip.AddrFrom4([4]byte{10, 0, 0, byte(1 + len(w.ids))}), 24)}
		c, pub, privPEM, _ := ct.NewTestCert(versions[0], w.curve, issuer, key, name, before, after, nets, nil, []string{"g"})
		priv, _, _, err := cert.UnmarshalPrivateKeyFromPEM(privPEM)
		if err != nil {
			panic(err)
		}
		id.pub = pub
		add := func(c cert.Certificate) {
			hb, err := c.MarshalForHandshakes()
			if err != nil {
				panic(err)
			}
			id.certs[c.Version()] = c
			id.creds[c.Version()] = NewCredential(c, hb, priv, w.suite)
		}
		add(c)
		id.defV = versions[0]
		if len(versions) > 1 {
			c2, _ := ct.NewTestCertDifferentVersion(c, versions[1], issuer, key)
			add(c2)
		}
		w.ids = append(w.ids, id)
		return id
	}
	pickV := func() []cert.Version {
		switch tp.Choose(4) {
		case 1:
			return []cert.Version{cert.Version1}
		case 2:
			return []cert.Version{cert.Version1, cert.Version2}
		case 3:
			return []cert.Version{cert.Version2, cert.Version1}
		}
		return []cert.Version{cert.Version2}
	}
	ok0, ok1 := now.Add(-30*time.Minute), now.Add(50*time.Hour)
	nh := 2 + tp.Choose(2)
	for i := 0; i < nh; i++ {
		id := mk(fmt.Sprintf("honest%d", i), "honest", ca, caKey, ok0, ok1, pickV())
		id.trusted = true
	}
	if tp.Chance(3, 4) {
		mk("untrusted", "untrusted", ca2, ca2Key, ok0, ok1, pickV())
	}
	if tp.Chance(3, 4) {
		id := mk("expired", "expired", ca, caKey, now.Add(-50*time.Minute), now.Add(-10*time.Minute), pickV())
		id.trusted = true
	}
	if tp.Chance(1, 2) {
		id := mk("expiring", "expiring", ca, caKey, ok0, now.Add(time.Duration(1+tp.Choose(20))*time.Minute), pickV())
		id.trusted = true
	}
	if tp.Chance(1, 2) {
		id := mk("notyet", "notyet", ca, caKey, now.Add(30*time.Minute), ok1, pickV())
		id.trusted = true
	}
	if tp.Chance(3, 4) {
		id := mk("blocklisted", "blocklisted", ca, caKey, ok0, ok1, pickV())
		id.trusted, id.blocked = true, true
		for _, c := range id.certs {
			fp, _ := c.Fingerprint()
			w.pool.BlocklistFingerprint(fp)
		}
	}
	if w.curve == cert.Curve_P256 && tp.Chance(3, 4) {
		id := mk("twinblocked", "twinblocked", ca, caKey, ok0, ok1, pickV())
		id.trusted, id.blocked = true, true
		for _, c := range id.certs {
			fp2, err := cert.CalculateAlternateFingerprint(c)
			if err != nil || fp2 == "" {
				rc.HarnessError("alternate fingerprint: %v", err)
				return
			}
			w.pool.BlocklistFingerprint(fp2)
		}
	}
	if tp.Chance(3, 4) {
		// the thief: own static key pair, the first honest identity's certificate bytes
		victim := w.ids[0]
		var pub, priv []byte
		if w.curve == cert.Curve_P256 {
			pub, priv = ct.P256Keypair()
		} else {
			pub, priv = ct.X25519Keypair()
		}
		id := &shsIdent{name: "thief", kind: "thief", creds: map[cert.Version]*Credential{}, certs: map[cert.Version]cert.Certificate{}, issuer: ca, pub: pub, defV: victim.defV, trusted: true}
		for v, c := range victim.certs {
			id.certs[v] = c
			id.creds[v] = NewCredential(fakePubCert{c, pub}, victim.creds[v].Bytes, priv, w.suite)
		}
		w.ids = append(w.ids, id)
	}
	if tp.Chance(1, 2) {
		// the garbler: a key pair of its own and a certificate field that does not decode (random bytes, or a
		// truncated / extended copy of its real encoding). Its noise messages are perfectly valid: the peer's noise
		// state advances before the certificate is looked at, so the rejection has to be final for that machine.
		id := mk("garbler", "garbler", ca, caKey, ok0, ok1, pickV())
		id.trusted = true
		for _, v := range []cert.Version{cert.Version1, cert.Version2} { // (fixed order: the loop draws from the tape)
			cr := id.creds[v]
			if cr == nil {
				continue
			}
			b := append([]byte(nil), cr.Bytes...)
			// (extensions and bit flips, which may still decode to the signed content, are the C02 mutations' business)
			if tp.Chance(1, 2) {
				b = make([]byte, 1+tp.Choose(120))
				tp.Bytes(b)
			} else {
				b = b[:tp.Choose(len(b))]
			}
			id.creds[v] = NewCredential(id.certs[v], b, cr.privateKey, w.suite)
		}
	}
	if tp.Chance(1, 2) {
		// the impostor: presents the first honest identity's certificate AND its public key as the Noise static key,
		// without holding the private half (its own private key is unrelated). It only ever responds: an IX responder
		// completes before the initiator has proven anything, which is the pattern's design, not a finding.
		victim := w.ids[0]
		var priv []byte
		if w.curve == cert.Curve_P256 {
			_, priv = ct.P256Keypair()
		} else {
			_, priv = ct.X25519Keypair()
		}
		id := &shsIdent{name: "impostor", kind: "impostor", creds: map[cert.Version]*Credential{}, certs: map[cert.Version]cert.Certificate{}, issuer: ca, defV: victim.defV, trusted: true}
		for v, c := range victim.certs {
			id.certs[v] = c
			id.creds[v] = NewCredential(c, victim.creds[v].Bytes, priv, w.suite)
		}
		w.ids = append(w.ids, id)
	}
	rc.Trace("S-hs focus=%s curve=%v cipher=%s ca=v%d ids=%s", focus, w.curve, cname, caV, w.kinds())

	steps := 40 + tp.Choose(80)
	if rc.Thorough() {
		steps = 100 + tp.Choose(400)
	}
	maxSessions := 2 + tp.Choose(5)
	for s := 0; s < steps && !rc.Failed(); s++ {
		switch tp.Weighted(3, 5, 7, 1) {
		case 0:
			if len(w.inits) < maxSessions {
				w.newSession()
			}
		case 1:
			w.deliverStage1()
		case 2:
			w.deliverStage2()
		case 3:
			d := time.Duration(1+tp.Choose(300)) * time.Second
			time.Sleep(d)
			rc.AddSimTime(d)
			rc.Count("ev.clock_advance", 1)
		}
	}
	if rc.Failed() {
		return
	}
	// closing phase: every usable initiator gets its genuine reply if one can exist
	for _, in := range w.inits {
		if in.res == nil && !in.m.Failed() {
			w.finish(in)
		}
		if rc.Failed() {
			return
		}
	}
	done, tainted := 0, 0
	for _, in := range w.inits {
		if in.res != nil {
			done++
			if len(in.rejected) > 0 {
				tainted++
			}
		}
	}
	rc.Count("probe.sessions", int64(len(w.inits)))
	rc.Count("probe.sessions_completed", int64(done))
	rc.Count("probe.completed_after_rejected_variants", int64(tainted))
	for k, v := range w.counts {
		rc.Count(k, int64(v))
	}
	rc.TraceQuiet(fmt.Sprintf("s=%d d=%d t=%d r=%d", len(w.inits), done, tainted, sk.HashString(fmt.Sprint(sortedKeys(w.counts)))%1000))
	if done > 0 && (tainted > 0 || w.counts["fault.stage1.cert-mutation"] > 0) {
		rc.Nontrivial()
	}
	rc.Sample(map[string]any{"curve": w.curve.String(), "cipher": cname, "identities": w.kinds(), "sessions": len(w.inits), "completed": done,
		"completed_after_rejected_variants": tainted, "responder_machines": len(w.resps), "mutations": w.counts})
}

func sortedKeys(m map[string]int) []string {
	var o []string
	for k := range m {
		o = append(o, k)
	}
	slices.Sort(o)
	return o
}

func (w *shsWorld) kinds() string {
	var o []string
	for _, id := range w.ids {
		v := ""
		for _, ver := range []cert.Version{cert.Version1, cert.Version2} {
			if id.certs[ver] != nil {
				v += fmt.Sprint(int(ver))
			}
		}
		o = append(o, id.kind+"/v"+v)
	}
	return strings.Join(o, ",")
}

func (w *shsWorld) index() uint32 {
	switch w.tp.Choose(5) {
	case 0:
		return 1 + uint32(w.tp.Choose(1<<20))
	case 1:
		return 0xffffffff
	case 2:
		return 7 // equal indexes on both sides are likely
	case 3:
		return 1
	}
	return uint32(w.tp.Choose(1<<30))<<2 | 1
}

func (w *shsWorld) verifier(rec **cert.CachedCertificate) CertVerifier {
	return func(c cert.Certificate) (*cert.CachedCertificate, error) {
		cc, err := w.pool.VerifyCertificate(time.Now(), c)
		if err == nil {
			*rec = cc
		}
		return cc, err
	}
}

func (w *shsWorld) newSession() {
	id := w.ids[w.tp.Choose(len(w.ids))]
	if id.kind == "impostor" {
		id = w.ids[0]
	}
	in := &shsInit{n: len(w.inits), id: id}
	idx := w.index()
	m, err := NewMachine(id.defV, id.getCred, w.verifier(&in.acc), func() (uint32, error) { return idx, nil }, true, header.HandshakeIXPSK0)
	if err != nil {
		w.rc.HarnessError("NewMachine: %v", err)
		return
	}
	in.m = m
	msg1, err := m.Initiate(nil)
	if err != nil {
		w.rc.HarnessError("Initiate: %v", err)
		return
	}
	in.msg1 = msg1
	w.inits = append(w.inits, in)
	w.msgs = append(w.msgs, &shsMsg{stage: 1, data: msg1, kind: "genuine", fromI: in})
	w.rc.Logf("session %d: %s (%s) initiates, index %d", in.n, id.name, id.kind, idx)
}

// ---------------------------------------------------------------------------
// first message -> fresh responder machine

func (w *shsWorld) deliverStage1() {
	var cands []*shsMsg
	for _, m := range w.msgs {
		if m.stage == 1 {
			cands = append(cands, m)
		}
	}
	if len(cands) == 0 {
		return
	}
	src := cands[w.tp.Choose(len(cands))]
	data, kind, certMut := src.data, src.kind, src.certMut
	if src.kind == "genuine" && w.tp.Chance(2, 5) {
		data, kind, certMut = w.mutateStage1(src)
		w.msgs = append(w.msgs, &shsMsg{stage: 1, data: data, kind: kind, fromI: src.fromI, certMut: certMut})
		w.counts["fault.stage1."+kindClass(kind)]++
		if certMut {
			w.counts["fault.cert."+strings.TrimPrefix(kind, "cert-mutation:")]++
		}
	} else if src.kind == "genuine" {
		w.counts["ev.stage1_genuine_or_replay"]++
	}
	rid := w.ids[w.tp.Choose(len(w.ids))]
	rs := &shsResp{id: rid, in: data}
	// the nebula header in front of the noise message is not authenticated by the
	// handshake: "unmodified" means the noise part is byte-identical
	if sameNoiseBody(data, src.fromI.msg1) {
		rs.genuine = src.fromI
	}
	idx := w.index()
	m, err := NewMachine(rid.defV, rid.getCred, w.verifier(&rs.acc), func() (uint32, error) { return idx, nil }, false, header.HandshakeIXPSK0)
	if err != nil {
		w.rc.HarnessError("NewMachine: %v", err)
		return
	}
	rs.m = m
	rs.out, rs.res, rs.err = m.ProcessPacket(nil, append([]byte(nil), data...))
	w.resps = append(w.resps, rs)
	w.rc.Logf("stage1 of session %d (%s, %s) -> responder %s (%s): result=%v err=%v failed=%v", src.fromI.n, src.fromI.id.kind, kind, rid.name, rid.kind, rs.res != nil, rs.err, m.Failed())
	if rs.res == nil {
		if rs.err == nil {
			w.fail("C05", "no-result-no-error", "responder returned neither a result nor an error for a first message (%s)", kind)
		}
		// ground truth: an untouched first message of an acceptable initiator must be accepted
		if rs.genuine != nil && src.fromI.id.acceptable(time.Now(), src.fromI.id.defV) && !m.Failed() {
			// rejected yet still "usable": a later genuine message would have to work; responders are single use, nothing to check
		}
		return
	}
	w.checkCompletion("responder", rs.m, rs.res, rs.acc, src, kind, certMut)
	if rs.out != nil {
		w.msgs = append(w.msgs, &shsMsg{stage: 2, data: rs.out, kind: "genuine", fromI: src.fromI, fromR: rs})
	}
	// after completion every later input must not yield a second result
	if w.tp.Chance(1, 6) {
		_, r2, _ := rs.m.ProcessPacket(nil, append([]byte(nil), data...))
		if r2 != nil {
			w.fail("C05", "completed-twice", "a responder machine produced a second result for a replayed first message")
		}
	}
}

func kindClass(k string) string {
	if i := strings.IndexByte(k, ':'); i >= 0 {
		return k[:i]
	}
	return k
}

// identityFields renders the decoded identity of a certificate (everything
// except the signature).
func identityFields(c cert.Certificate) string {
	return fmt.Sprintf("v=%d name=%q nets=%v unsafe=%v groups=%v ca=%v nb=%d na=%d issuer=%s curve=%v pub=%x",
		c.Version(), c.Name(), c.Networks(), c.UnsafeNetworks(), c.Groups(), c.IsCA(), c.NotBefore().Unix(), c.NotAfter().Unix(), c.Issuer(), c.Curve(), c.PublicKey())
}

// checkCompletion holds for every Result a machine returns (C05, C02).
func (w *shsWorld) checkCompletion(side string, m *Machine, res *Result, acc *cert.CachedCertificate, src *shsMsg, kind string, certMut bool) {
	now := time.Now()
	if res.RemoteCert == nil || res.RemoteCert.Certificate == nil {
		w.fail("C05", "completed-without-cert", "%s completed without a peer certificate (%s)", side, kind)
		return
	}
	rcert := res.RemoteCert.Certificate
	if acc == nil || acc != res.RemoteCert {
		w.fail("C05", "cert-not-from-verifier", "%s completed reporting a certificate that is not the one its trust check accepted (%s)", side, kind)
		return
	}
	if !bytes.Equal(rcert.PublicKey(), m.hs.PeerStatic()) {
		w.fail("C05", "key-not-proven", "%s completed with a certificate whose public key %x is not the static key of the Noise exchange %x (%s)", side, rcert.PublicKey(), m.hs.PeerStatic(), kind)
		return
	}
	if res.LocalIndex == 0 {
		w.fail("C06", "zero-local-index", "%s completed with local index 0", side)
		return
	}
	// who is that? ground truth by public key
	var owner *shsIdent
	for _, id := range w.ids {
		if bytes.Equal(id.pub, rcert.PublicKey()) {
			owner = id
		}
	}
	if owner == nil {
		w.fail("C05", "unknown-key-accepted", "%s completed with a certificate for a key no identity holds (%s): %s", side, kind, identityFields(rcert))
		return
	}
	orig := owner.certs[rcert.Version()]
	if owner.kind == "thief" || orig == nil || !owner.acceptable(now, rcert.Version()) {
		prop := "C05"
		if certMut {
			prop = "C02"
		}
		w.fail(prop, "untrusted-identity-completed", "%s completed with identity %s (%s, version %d) that the trust rule rejects at %v (%s)", side, owner.name, owner.kind, rcert.Version(), now.Sub(w.t0), kind)
		return
	}
	if identityFields(orig) != identityFields(rcert) {
		w.fail("C02", "identity-changed", "%s accepted a certificate whose decoded identity differs from the issued one (%s)\nissued:   %s\naccepted: %s", side, kind, identityFields(orig), identityFields(rcert))
		return
	}
	if !bytes.Equal(orig.Signature(), rcert.Signature()) {
		twin := false
		if w.curve == cert.Curve_P256 {
			if t, err := p256.Swap(orig.Signature()); err == nil && bytes.Equal(t, rcert.Signature()) {
				twin = true
			}
		}
		if !twin {
			w.fail("C02", "other-signature-accepted", "%s accepted unchanged content under a signature that is neither the issued one nor its P-256 twin (%s)", side, kind)
			return
		}
		w.counts["probe.twin_signature_accepted"]++
	}
}

// mutateStage1 rewrites a genuine first message. Half of the mutations are
// confined to the certificate bytes (structure aware, C02).
func (w *shsWorld) mutateStage1(src *shsMsg) ([]byte, string, bool) {
	tp := w.tp
	b := append([]byte(nil), src.data...)
	off := header.Len + 2*w.dhLen
	if len(b) > off && tp.Chance(3, 5) {
		p, err := UnmarshalPayload(b[off:])
		if err == nil && len(p.Cert) > 0 {
			c := append([]byte(nil), p.Cert...)
			kind := ""
			switch tp.Choose(8) {
			case 0:
				i := tp.Choose(len(c))
				c[i] ^= byte(1 << tp.Choose(8))
				kind = "cert-mutation:bitflip"
			case 1:
				i := tp.Choose(len(c) + 1)
				ins := make([]byte, 1+tp.Choose(4))
				tp.Bytes(ins)
				c = append(c[:i:i], append(ins, c[i:]...)...)
				kind = "cert-mutation:insert"
			case 2:
				i := tp.Choose(len(c))
				n := 1 + tp.Choose(minInt(4, len(c)-i))
				c = append(c[:i:i], c[i+n:]...)
				kind = "cert-mutation:delete"
			case 3:
				c = c[:tp.Choose(len(c))]
				kind = "cert-mutation:truncate"
			case 4:
				ext := make([]byte, 1+tp.Choose(8))
				tp.Bytes(ext)
				c = append(c, ext...)
				kind = "cert-mutation:extend"
			case 5: // the P-256 twin of the signature (or a corrupted signature on 25519)
				full, err := cert.Recombine(cert.Version(p.CertVersion), p.Cert, src.fromI.id.pub, w.curve)
				if err == nil {
					sig := full.Signature()
					if i := bytes.Index(c, sig); i >= 0 {
						if w.curve == cert.Curve_P256 {
							if t, err := p256.Swap(sig); err == nil {
								if nc, ok := replaceSignature(c, i, sig, t); ok {
									c = nc
									kind = "cert-mutation:twin-signature"
								}
							}
						} else if tp.Chance(1, 2) {
							// the issued signature followed by extra bytes, lengths fixed up so that the field still
							// decodes: unchanged content under a signature encoding nobody issued (and a fingerprint no
							// blocklist names)
							ext := make([]byte, 1+tp.Choose(3))
							tp.Bytes(ext)
							if nc, ok := replaceSignature(c, i, sig, append(append([]byte(nil), sig...), ext...)); ok {
								c = nc
								kind = "cert-mutation:signature-extended"
							}
						} else {
							c[i+tp.Choose(len(sig))] ^= 1
							kind = "cert-mutation:signature-bit"
						}
					}
				}
			case 6: // another identity's certificate bytes under this initiator's key
				o := w.ids[tp.Choose(len(w.ids))]
				if cr := o.creds[cert.Version(p.CertVersion)]; cr != nil && o != src.fromI.id {
					c = append([]byte(nil), cr.Bytes...)
					kind = "cert-mutation:foreign-cert"
				}
			case 7: // version field flipped
				if p.CertVersion == 1 {
					p.CertVersion = 2
				} else {
					p.CertVersion = 1
				}
				kind = "cert-mutation:version-field"
			}
			if kind != "" {
				p.Cert = c
				nb := append(append([]byte(nil), b[:off]...), MarshalPayload(nil, p)...)
				if !bytes.Equal(nb, src.data) {
					return nb, kind, true
				}
			}
		}
	}
	// blind / protocol level mutations
	switch tp.Choose(7) {
	case 0:
		return b[:tp.Choose(len(b))], "truncate", false
	case 1:
		i := tp.Choose(len(b))
		b[i] ^= byte(1 << tp.Choose(8))
		return b, "bitflip", false
	case 2:
		e := w.badPoint()
		copy(b[header.Len:], e)
		return b, "ephemeral-substituted", false
	case 3:
		if len(b) > off {
			if p, err := UnmarshalPayload(b[off:]); err == nil {
				p.InitiatorIndex = uint32(tp.Choose(1 << 30))
				p.Time = uint64(tp.Choose(1 << 30))
				return append(b[:off:off], MarshalPayload(nil, p)...), "payload-fields", false
			}
		}
	case 4:
		b[1] ^= byte(1 + tp.Choose(3))
		return b, "subtype", false
	case 5:
		ext := make([]byte, 1+tp.Choose(30))
		tp.Bytes(ext)
		return append(b, ext...), "extend", false
	}
	if len(b) > header.Len+w.dhLen {
		// static key replaced by another identity's
		o := w.ids[tp.Choose(len(w.ids))]
		copy(b[header.Len+w.dhLen:], o.pub)
		return b, "static-substituted", false
	}
	b[len(b)-1] ^= 1
	return b, "bitflip", false
}

// replaceSignature swaps the signature bytes at offset i of handshake
// certificate bytes for another encoding of possibly different length, fixing
// the length octet in front of it and, for the v2 (DER) encoding, the outer
// SEQUENCE length, so that the result still decodes.
func replaceSignature(c []byte, i int, old, nw []byte) ([]byte, bool) {
	if i < 1 || int(c[i-1]) != len(old) || len(nw) > 127 {
		return nil, false
	}
	out := append(append(append([]byte(nil), c[:i]...), nw...), c[i+len(old):]...)
	out[i-1] = byte(len(nw))
	delta := len(nw) - len(old)
	if out[0] == 0x30 && delta != 0 { // DER SEQUENCE: fix the outer length
		switch {
		case out[1] < 0x80:
			if int(out[1])+delta >= 0x80 || int(out[1])+delta < 0 {
				return nil, false
			}
			out[1] = byte(int(out[1]) + delta)
		case out[1] == 0x81:
			if int(out[2])+delta > 0xff || int(out[2])+delta < 0x80 {
				return nil, false
			}
			out[2] = byte(int(out[2]) + delta)
		case out[1] == 0x82:
			l := int(out[2])<<8 | int(out[3])
			l += delta
			out[2], out[3] = byte(l>>8), byte(l)
		default:
			return nil, false
		}
	}
	return out, true
}

// sameNoiseBody compares two handshake packets ignoring the 16-byte nebula header.
func sameNoiseBody(a, b []byte) bool {
	if len(a) < header.Len || len(b) < header.Len {
		return false
	}
	return a[1] == b[1] && bytes.Equal(a[header.Len:], b[header.Len:])
}

func minInt(a, b int) int {
	if a < b {
		return a
	}
	return b
}

var lowOrder25519 = []string{
	"0000000000000000000000000000000000000000000000000000000000000000",
	"0100000000000000000000000000000000000000000000000000000000000000",
	"e0eb7a7c3b41b8ae1656e3faf19fc46ada098deb9c32b1fd866205165f49b800",
	"5f9c95bca3508c24b1d0b1559c83ef5b04445cc4581c8e86d8224eddd09f1157",
	"ecffffffffffffffffffffffffffffffffffffffffffffffffffffffffffff7f",
	"edffffffffffffffffffffffffffffffffffffffffffffffffffffffffffff7f",
	"eeffffffffffffffffffffffffffffffffffffffffffffffffffffffffffff7f",
}

// badPoint returns an ephemeral key an attacker might substitute: low order
// X25519 points, invalid P-256 points, or random bytes.
func (w *shsWorld) badPoint() []byte {
	if w.curve == cert.Curve_CURVE25519 {
		if w.tp.Chance(3, 4) {
			b, _ := hex.DecodeString(lowOrder25519[w.tp.Choose(len(lowOrder25519))])
			return b
		}
		b := make([]byte, 32)
		w.tp.Bytes(b)
		return b
	}
	b := make([]byte, 65)
	switch w.tp.Choose(3) {
	case 0: // all zero (not a valid encoding)
	case 1: // valid prefix, coordinates not on the curve
		b[0] = 4
		w.tp.Bytes(b[1:])
	case 2: // point at infinity style encoding
		b[0] = 0
	}
	return b
}

// ---------------------------------------------------------------------------
// second message -> initiator machine

func (w *shsWorld) genuineReplyFor(in *shsInit) *shsResp {
	for _, rs := range w.resps {
		if rs.genuine == in && rs.out != nil && rs.res != nil {
			return rs
		}
	}
	return nil
}

func (w *shsWorld) deliverStage2() {
	if len(w.inits) == 0 {
		return
	}
	in := w.inits[w.tp.Choose(len(w.inits))]
	var data []byte
	kind := ""
	var from *shsResp
	gen := w.genuineReplyFor(in)
	switch {
	case gen != nil && w.tp.Chance(1, 3):
		data, kind, from = gen.out, "genuine", gen
	case gen != nil && w.tp.Chance(2, 3):
		data, kind = w.mutateStage2(gen.out)
	default:
		// a reply that belongs to another session / another responder, garbage, or a replayed first message
		var others []*shsMsg
		for _, m := range w.msgs {
			if m.stage == 2 && (m.fromR == nil || m.fromR.genuine != in) {
				others = append(others, m)
			}
		}
		switch {
		case len(others) > 0 && w.tp.Chance(2, 3):
			o := others[w.tp.Choose(len(others))]
			data, kind, from = o.data, "cross-session", o.fromR
		case w.tp.Chance(1, 2):
			data, kind = in.msg1, "own-first-message"
		default:
			data = make([]byte, header.Len+w.tp.Choose(200))
			w.tp.Bytes(data)
			if w.tp.Chance(3, 4) {
				header.Encode(data[:header.Len], header.Version, header.Handshake, header.HandshakeIXPSK0, in.res0(), 2)
			}
			kind = "garbage"
		}
	}
	w.feed(in, data, kind, from)
}

func (in *shsInit) res0() uint32 {
	if in.m != nil && in.m.result != nil {
		return in.m.result.LocalIndex
	}
	return 0
}

// feed gives one message to an initiator machine and applies the C05/C06/C07 oracles.
func (w *shsWorld) feed(in *shsInit, data []byte, kind string, from *shsResp) {
	wasFailed := in.m.Failed()
	hadResult := in.res != nil
	_, res, err := in.m.ProcessPacket(nil, append([]byte(nil), data...))
	w.counts["fault.stage2."+kindClass(kind)]++
	w.rc.Logf("stage2 -> session %d (%s): %s len=%d result=%v err=%v failed=%v", in.n, in.id.kind, kind, len(data), res != nil, err, in.m.Failed())
	if wasFailed {
		if !errors.Is(err, ErrMachineFailed) || res != nil {
			w.fail("C07", "failed-machine-accepted-input", "session %d: machine had reported Failed() but a later input (%s) returned result=%v err=%v", in.n, kind, res != nil, err)
		}
		return
	}
	if hadResult {
		if res != nil {
			w.fail("C05", "completed-twice", "session %d: initiator produced a second result (%s)", in.n, kind)
		}
		return
	}
	genuineHere := false
	for _, rs := range w.resps {
		if rs.genuine == in && rs.out != nil && rs.res != nil && sameNoiseBody(data, rs.out) {
			genuineHere, from = true, rs
			break
		}
	}
	if res != nil {
		if !genuineHere {
			w.fail("C05", "completed-on-forged-message", "session %d: initiator completed on a message that is not the unmodified reply of a responder that processed its unmodified first message (%s)", in.n, kind)
			return
		}
		in.res, in.by = res, from
		if from.id.kind == "impostor" {
			w.fail("C05", "static-key-not-proven", "session %d: initiator completed with a responder that presented %s's certificate and public key without holding the private key", in.n, w.ids[0].name)
			return
		}
		w.checkCompletion("initiator", in.m, res, in.acc, &shsMsg{fromI: in}, kind, false)
		if w.rc.Failed() {
			return
		}
		fp, _ := from.id.certs[res.RemoteCert.Certificate.Version()].Fingerprint()
		if res.RemoteCert.Fingerprint != fp {
			w.fail("C05", "wrong-peer-certificate", "session %d: initiator completed with responder %s but reports certificate %s", in.n, from.id.name, res.RemoteCert.Fingerprint)
			return
		}
		w.checkAgreement(in, from)
		return
	}
	// rejected
	if err == nil {
		w.fail("C05", "no-result-no-error", "session %d: initiator returned neither result nor error (%s)", in.n, kind)
		return
	}
	if genuineHere {
		// the genuine reply was refused: legitimate only if the responder's identity is not acceptable (fatal by design)
		okPeer := from.id.acceptable(time.Now(), from.res.MyCert.Version())
		if !okPeer && !in.m.Failed() {
			// refused, and the machine says it is still usable: a later genuine reply has to work (C07)
			in.rejected = append(in.rejected, fmt.Sprintf("reply of %s len=%d (%v)", from.id.kind, len(data), err))
		}
		if okPeer {
			why := "no rejected message before it"
			if len(in.rejected) > 0 {
				why = fmt.Sprintf("after %d rejected message(s) that left Failed()==false: %s", len(in.rejected), strings.Join(in.rejected, "; "))
			}
			w.fail("C07", "wedged", "session %d (%s -> %s): the genuine reply was refused (%v, Failed()=%v) — %s", in.n, in.id.name, from.id.name, err, in.m.Failed(), why)
		}
		return
	}
	if !in.m.Failed() {
		in.rejected = append(in.rejected, fmt.Sprintf("%s len=%d (%v)", kind, len(data), err))
	}
}

// finish delivers the genuine reply to a still usable initiator (creating the
// responder if needed) — the "genuine message delivered afterwards" of C07.
func (w *shsWorld) finish(in *shsInit) {
	gen := w.genuineReplyFor(in)
	if gen == nil {
		// pick an acceptable honest responder
		var rid *shsIdent
		for _, id := range w.ids {
			if id.kind == "honest" && id != in.id {
				rid = id
				break
			}
		}
		if rid == nil || !in.id.acceptable(time.Now(), in.id.defV) {
			return
		}
		rs := &shsResp{id: rid, in: in.msg1, genuine: in}
		idx := w.index()
		m, err := NewMachine(rid.defV, rid.getCred, w.verifier(&rs.acc), func() (uint32, error) { return idx, nil }, false, header.HandshakeIXPSK0)
		if err != nil {
			return
		}
		rs.m = m
		rs.out, rs.res, rs.err = m.ProcessPacket(nil, append([]byte(nil), in.msg1...))
		w.resps = append(w.resps, rs)
		if rs.res == nil {
			// refusing a legitimate peer is not what any of the four properties forbids; record it as a reach probe
			w.counts["probe.genuine_first_message_refused"]++
			w.rc.Logf("responder %s refused the unmodified first message of acceptable identity %s: %v", rid.name, in.id.name, rs.err)
			return
		}
		w.checkCompletion("responder", rs.m, rs.res, rs.acc, &shsMsg{fromI: in}, "genuine", false)
		gen = rs
	}
	if w.rc.Failed() {
		return
	}
	w.feed(in, gen.out, "genuine", gen)
}

// checkAgreement is C06 for one session completed at both ends.
func (w *shsWorld) checkAgreement(in *shsInit, rs *shsResp) {
	a, b := in.res, rs.res
	if a.RemoteIndex != b.LocalIndex || b.RemoteIndex != a.LocalIndex {
		w.fail("C06", "indexes-disagree", "session %d: initiator local/remote %d/%d, responder local/remote %d/%d", in.n, a.LocalIndex, a.RemoteIndex, b.LocalIndex, b.RemoteIndex)
		return
	}
	if a.LocalIndex == 0 || b.LocalIndex == 0 {
		w.fail("C06", "zero-local-index", "session %d completed with a zero local index", in.n)
		return
	}
	if a.MessageIndex != b.MessageIndex {
		w.fail("C06", "message-count-disagrees", "session %d: initiator counts %d handshake messages, responder %d", in.n, a.MessageIndex, b.MessageIndex)
		return
	}
	if !keysPair(a.EKey, b.DKey) || !keysPair(b.EKey, a.DKey) {
		w.fail("C06", "keys-disagree", "session %d: a side's sending key does not decrypt with the other side's receiving key", in.n)
		return
	}
	if keysPair(a.EKey, a.DKey) || keysPair(b.EKey, b.DKey) || keysPair(a.EKey, b.EKey) || keysPair(a.DKey, b.DKey) {
		w.fail("C06", "keys-not-directional", "session %d: sending and receiving keys are not distinct per direction", in.n)
		return
	}
	// no pairing with any other session
	for _, o := range w.resps {
		if o == rs || o.res == nil {
			continue
		}
		if keysPair(a.EKey, o.res.DKey) || keysPair(o.res.EKey, a.DKey) {
			w.fail("C06", "keys-shared-across-sessions", "session %d: initiator keys pair with a responder machine of another session", in.n)
			return
		}
	}
	w.counts["probe.sessions_agreed"]++
}

func keysPair(e, d *noise.CipherState) bool {
	if e == nil || d == nil {
		return false
	}
	const n = uint64(1) << 40
	ad := []byte("ad")
	ct := e.Cipher().Encrypt(nil, n, ad, []byte("agreement-probe"))
	pt, err := d.Cipher().Decrypt(nil, n, ad, ct)
	return err == nil && string(pt) == "agreement-probe"
}

// mutateStage2 builds an attacker variant of a genuine reply.
func (w *shsWorld) mutateStage2(g []byte) ([]byte, string) {
	tp := w.tp
	b := append([]byte(nil), g...)
	switch tp.Choose(9) {
	case 0: // truncation classes around the token boundaries
		var l int
		switch tp.Choose(6) {
		case 0:
			l = header.Len
		case 1:
			l = header.Len + tp.Choose(w.dhLen)
		case 2:
			l = header.Len + w.dhLen
		case 3:
			l = header.Len + w.dhLen + tp.Choose(w.dhLen+16)
		case 4:
			l = header.Len + 2*w.dhLen + 16
		default:
			l = tp.Choose(len(b))
		}
		if l >= len(b) {
			l = len(b) - 1
		}
		return b[:l], fmt.Sprintf("truncate:%d", l-header.Len)
	case 1:
		copy(b[header.Len:], w.badPoint())
		return b, "ephemeral-substituted"
	case 2:
		i := header.Len + tp.Choose(len(b)-header.Len)
		b[i] ^= byte(1 << tp.Choose(8))
		return b, "bitflip-body"
	case 3:
		i := tp.Choose(header.Len)
		b[i] ^= byte(1 << tp.Choose(8))
		return b, "bitflip-header"
	case 4:
		b[1] ^= byte(1 + tp.Choose(3))
		return b, "subtype"
	case 5:
		ext := make([]byte, 1+tp.Choose(30))
		tp.Bytes(ext)
		return append(b, ext...), "extend"
	case 6: // body of another reply spliced under this header
		var others []*shsMsg
		for _, m := range w.msgs {
			if m.stage == 2 && !bytes.Equal(m.data, g) {
				others = append(others, m)
			}
		}
		if len(others) > 0 {
			o := others[tp.Choose(len(others))]
			return append(b[:header.Len:header.Len], o.data[header.Len:]...), "splice-body"
		}
	case 7: // ephemeral of another reply, rest of this one
		for _, m := range w.msgs {
			if m.stage == 2 && !bytes.Equal(m.data, g) && len(m.data) > header.Len+w.dhLen {
				copy(b[header.Len:header.Len+w.dhLen], m.data[header.Len:])
				return b, "ephemeral-from-other-session"
			}
		}
	case 8:
		binary.BigEndian.PutUint64(b[8:16], uint64(2+tp.Choose(5)))
		return b, "counter-field"
	}
	b[len(b)-1] ^= 0x40
	return b, "bitflip-body"
}

package handshake

import (
	"testing"

	sk "github.com/slackhq/nebula/internal/verifsimkit"
)

// TestVerif is the entry point of the simulation harness compiled into package
// handshake; bin/vcheck drives it through the VERIF_JOB job file.
func TestVerif(t *testing.T) { sk.WorkerMain(t) }

//go:build linux && !android && !e2e_testing

package udp

// C26 — batched underlay sends survive kernel faults without duplication.
// Engine C: a real batchWriter (no socket) whose sendFn is a simulated kernel.
// The kernel decodes the prepared mmsghdr array (iovecs, sockaddr, UDP_SEGMENT
// cmsg) exactly as sendmmsg(2) would read it, and answers from the tape: full
// success, a short count at any entry, zero-progress errors (EIO on an
// offloaded entry, EIO on a plain entry, ENOBUFS, EPERM, EMSGSIZE), repeated
// failures. The oracle only looks at what the kernel saw.

import (
	"encoding/binary"
	"fmt"
	"log/slog"
	"net"
	"net/netip"
	"testing"
	"unsafe"

	sk "github.com/slackhq/nebula/internal/verifsimkit"
	"golang.org/x/sys/unix"
)

func TestVerif(t *testing.T) { sk.WorkerMain(t) }

func init() {
	sk.Register("C26.kernel", sk.Scenario{NoBubble: true, Run: runC26})
}

type c26Kernel struct {
	rc       *sk.RunCtx
	w        *batchWriter
	isV4     bool
	bufIndex map[uintptr]int // &buf[0] -> input index
	bufs     [][]byte
	addrs    []netip.AddrPort
	accepted []int // input indexes in the order the kernel accepted them
	matched  map[int]bool
	emptyInput, emptyAccepted map[netip.AddrPort]int
	count    map[int]int
	calls    int
	gsoSeen  int
	maxSegs  int
	// fault script
	failLeft int
	faults   map[string]int
}

type c26Entry struct {
	dst    netip.AddrPort
	pkts   []int // input indexes of the iovecs
	gso    int   // UDP_SEGMENT size, 0 = none
	hasGSO bool
}

// decode reads entry e the way the kernel would.
func (k *c26Kernel) decode(e int) (*c26Entry, bool) {
	rc := k.rc
	if e < 0 || e >= len(k.w.msgs) {
		rc.Fail("entry-out-of-range", "sendmmsg asked for entry %d of %d", e, len(k.w.msgs))
		return nil, false
	}
	hdr := &k.w.msgs[e].Hdr
	ent := &c26Entry{}
	// destination
	if hdr.Name == nil || hdr.Name != &k.w.names[e][0] {
		rc.Fail("bad-sockaddr", "entry %d: msg_name does not point at its sockaddr slot", e)
		return nil, false
	}
	name := k.w.names[e]
	fam := binary.NativeEndian.Uint16(name[0:2])
	port := binary.BigEndian.Uint16(name[2:4])
	switch {
	case fam == unix.AF_INET && hdr.Namelen == unix.SizeofSockaddrInet4:
		a, _ := netip.AddrFromSlice(name[4:8])
		ent.dst = netip.AddrPortFrom(a, port)
		if !k.isV4 {
			rc.Fail("bad-sockaddr", "entry %d: AF_INET sockaddr on an AF_INET6 socket", e)
			return nil, false
		}
	case fam == unix.AF_INET6 && hdr.Namelen == unix.SizeofSockaddrInet6:
		a, _ := netip.AddrFromSlice(name[8:24])
		ent.dst = netip.AddrPortFrom(a, port)
		if k.isV4 {
			rc.Fail("bad-sockaddr", "entry %d: AF_INET6 sockaddr on an AF_INET socket", e)
			return nil, false
		}
	default:
		rc.Fail("bad-sockaddr", "entry %d: family %d with namelen %d", e, fam, hdr.Namelen)
		return nil, false
	}
	// iovecs
	n := int(hdr.Iovlen)
	if hdr.Iov == nil || n < 1 || n > len(k.w.iovs) {
		rc.Fail("bad-iovec", "entry %d: iovlen %d", e, n)
		return nil, false
	}
	base := uintptr(unsafe.Pointer(&k.w.iovs[0]))
	off := uintptr(unsafe.Pointer(hdr.Iov)) - base
	sz := unsafe.Sizeof(k.w.iovs[0])
	if uintptr(unsafe.Pointer(hdr.Iov)) < base || off%sz != 0 || int(off/sz)+n > len(k.w.iovs) {
		rc.Fail("bad-iovec", "entry %d: iovec array is not inside the writer's scratch", e)
		return nil, false
	}
	first := int(off / sz)
	for j := 0; j < n; j++ {
		iov := k.w.iovs[first+j]
		if iov.Len == 0 {
			// a zero length datagram carries no bytes to identify it by: empty datagrams to
			// one destination are interchangeable and are accounted per destination
			ent.pkts = append(ent.pkts, -1)
			continue
		}
		idx, ok := k.bufIndex[uintptr(unsafe.Pointer(iov.Base))]
		if !ok {
			rc.Fail("unknown-iovec", "entry %d iovec %d points at memory that is not the start of an input datagram", e, j)
			return nil, false
		}
		if int(iov.Len) != len(k.bufs[idx]) {
			rc.Fail("iovec-length", "entry %d iovec %d: length %d, datagram %d has %d bytes", e, j, iov.Len, idx, len(k.bufs[idx]))
			return nil, false
		}
		ent.pkts = append(ent.pkts, idx)
	}
	// control
	if hdr.Control != nil || hdr.Controllen != 0 {
		if len(k.w.cmsg) < (e+1)*k.w.cmsgSpace || hdr.Control == nil || int(hdr.Controllen) != k.w.cmsgSpace || hdr.Control != &k.w.cmsg[e*k.w.cmsgSpace] {
			rc.Fail("bad-cmsg", "entry %d: control buffer is not its cmsg slot (len %d)", e, hdr.Controllen)
			return nil, false
		}
		c := (*unix.Cmsghdr)(unsafe.Pointer(hdr.Control))
		if c.Level != unix.SOL_UDP || c.Type != unix.UDP_SEGMENT || int(c.Len) != unix.CmsgLen(2) {
			rc.Fail("bad-cmsg", "entry %d: cmsg level=%d type=%d len=%d", e, c.Level, c.Type, c.Len)
			return nil, false
		}
		dataOff := e*k.w.cmsgSpace + unix.CmsgLen(0)
		ent.gso = int(binary.NativeEndian.Uint16(k.w.cmsg[dataOff : dataOff+2]))
		ent.hasGSO = true
	}
	return ent, true
}

func normAP(a netip.AddrPort) netip.AddrPort { return netip.AddrPortFrom(a.Addr().Unmap(), a.Port()) }

func containsInt(s []int, v int) bool {
	for _, x := range s {
		if x == v {
			return true
		}
	}
	return false
}

// geometry checks what the kernel requires of an entry.
func (k *c26Kernel) geometry(e int, ent *c26Entry) bool {
	rc := k.rc
	for _, p := range ent.pkts {
		if p < 0 {
			continue
		}
		want := k.addrs[p]
		if netip.AddrPortFrom(want.Addr().Unmap(), want.Port()) != netip.AddrPortFrom(ent.dst.Addr().Unmap(), ent.dst.Port()) {
			rc.Fail("wrong-destination", "entry %d carries datagram %d (for %v) but is addressed to %v", e, p, want, ent.dst)
			return false
		}
	}
	if !ent.hasGSO {
		if len(ent.pkts) != 1 {
			rc.Fail("plain-entry-multi", "entry %d has %d datagrams but no UDP_SEGMENT: the kernel would send them as one concatenated datagram", e, len(ent.pkts))
			return false
		}
		return true
	}
	k.gsoSeen++
	if len(ent.pkts) < 2 {
		// legal for the kernel, but the writer documents that single packets carry no cmsg; not a property matter
	}
	if len(ent.pkts) > k.maxSegs {
		rc.Fail("too-many-segments", "entry %d offloads %d segments, limit %d", e, len(ent.pkts), k.maxSegs)
		return false
	}
	total := 0
	for j, p := range ent.pkts {
		l := 0
		if p >= 0 {
			l = len(k.bufs[p])
		}
		total += l
		if l == 0 {
			rc.Fail("empty-segment", "entry %d offloads an empty datagram", e)
			return false
		}
		if j < len(ent.pkts)-1 && l != ent.gso {
			rc.Fail("unequal-segments", "entry %d: segment %d has %d bytes, gso size %d (only the last may be shorter)", e, j, l, ent.gso)
			return false
		}
		if j == len(ent.pkts)-1 && l > ent.gso {
			rc.Fail("unequal-segments", "entry %d: last segment has %d bytes, more than gso size %d", e, l, ent.gso)
			return false
		}
	}
	if total > 65000 {
		rc.Fail("offload-too-big", "entry %d offloads %d bytes (limit 65000)", e, total)
		return false
	}
	return true
}

// send is the simulated sendmmsg(2).
func (k *c26Kernel) send(start, n int) (int, error) {
	k.calls++
	if k.calls > 5000 {
		k.rc.Fail("no-termination", "more than 5000 sendmmsg calls for one batch")
		return 0, nil
	}
	if n < 1 || start < 0 || start+n > len(k.w.msgs) {
		k.rc.Fail("entry-out-of-range", "sendmmsg(start=%d, n=%d) with %d slots", start, n, len(k.w.msgs))
		return 0, nil
	}
	tp := k.rc.Tape
	k.matched = map[int]bool{}
	ents := make([]*c26Entry, n)
	for e := 0; e < n; e++ {
		ent, ok := k.decode(start + e)
		if !ok {
			return 0, nil
		}
		if !k.geometry(start+e, ent) {
			return 0, nil
		}
		ents[e] = ent
	}
	// decide the outcome
	accept := n
	var err error
	if k.failLeft > 0 {
		switch tp.Weighted(5, 3, 3, 1) {
		case 1: // short count
			accept = tp.Choose(n)
			if accept > 0 {
				k.faults["fault.short_count"]++
				k.failLeft--
			} else {
				accept = n
			}
		case 2: // zero progress: the first entry is rejected
			accept = 0
			k.failLeft--
			errno := []unix.Errno{unix.EIO, unix.EIO, unix.ENOBUFS, unix.EPERM, unix.EMSGSIZE, unix.ENETUNREACH, unix.EINVAL}[tp.Choose(7)]
			err = &net.OpError{Op: "sendmmsg", Err: errno}
			if ents[0].hasGSO && errno == unix.EIO {
				k.faults["fault.eio_on_offloaded_entry"]++
			} else if errno == unix.EIO {
				k.faults["fault.eio_on_plain_entry"]++
			} else {
				k.faults["fault.entry_rejected_"+errno.Error()]++
			}
		case 3: // some accepted, then (on the next call) the next one fails: same as a short count of 1
			accept = 1
			k.faults["fault.short_count"]++
			k.failLeft--
		}
	}
	for e := 0; e < accept; e++ {
		for _, p := range ents[e].pkts {
			k.accepted = append(k.accepted, p)
			if p < 0 {
				d := normAP(ents[e].dst)
				k.emptyAccepted[d]++
				if k.emptyAccepted[d] > k.emptyInput[d] {
					k.rc.Fail("sent-twice", "%d empty datagrams were handed to the kernel for %v, the batch holds %d", k.emptyAccepted[d], d, k.emptyInput[d])
					return accept, err
				}
				continue
			}
			k.count[p]++
			if k.count[p] > 1 {
				k.rc.Fail("sent-twice", "datagram %d (to %v, %d bytes) was handed to the kernel successfully %d times", p, k.addrs[p], len(k.bufs[p]), k.count[p])
				return accept, err
			}
		}
	}
	return accept, err
}

func runC26(rc *sk.RunCtx) {
	tp := rc.Tape
	isV4 := tp.Chance(2, 3)
	gso := tp.Chance(3, 4)
	maxSegs := []int{63, 127, 4, 16}[tp.Choose(4)]
	w := &batchWriter{fd: -1, isV4: isV4, l: slog.New(slog.DiscardHandler)}
	w.gsoSupported = gso
	w.maxGSOSegments = maxSegs
	w.prepareWriteMessages(MaxWriteBatch, true)
	if !gso {
		// the cmsg slab is only allocated when GSO was supported at construction; a writer that
		// never had it must never emit a cmsg (checked by decode)
	}
	k := &c26Kernel{rc: rc, w: w, isV4: isV4, bufIndex: map[uintptr]int{}, count: map[int]int{}, emptyInput: map[netip.AddrPort]int{}, emptyAccepted: map[netip.AddrPort]int{}, maxSegs: maxSegs, faults: map[string]int{}}
	w.sendFn = k.send

	// destinations
	nd := 1 + tp.Choose(6)
	var dsts []netip.AddrPort
	for i := 0; i < nd; i++ {
		if i > 0 && tp.Chance(1, 4) {
			// two peers behind one NAT: an address already in the list with another port; or the same address and
			// port spelled as an IPv4-mapped IPv6 address (one destination as far as the kernel is concerned)
			prev := dsts[tp.Choose(len(dsts))]
			if prev.Addr().Is4() && tp.Chance(1, 3) {
				dsts = append(dsts, netip.AddrPortFrom(netip.AddrFrom16(prev.Addr().As16()), prev.Port()))
			} else {
				dsts = append(dsts, netip.AddrPortFrom(prev.Addr(), prev.Port()+uint16(1+tp.Choose(3))))
			}
		} else if tp.Chance(1, 5) {
			// an IPv6 destination: unroutable on a v4 socket
			dsts = append(dsts, netip.AddrPortFrom(netip.AddrFrom16([16]byte{0xfd, 0, 0, 0, 0, 0, 0, 0, 0, 0, 0, 0, 0, 0, 0, byte(i + 1)}), uint16(4000+i)))
		} else {
			dsts = append(dsts, netip.AddrPortFrom(netip.AddrFrom4([4]byte{192, 0, 2, byte(i + 1)}), uint16(4000+i)))
		}
	}
	// the batch
	n := 0
	switch tp.Choose(4) {
	case 0:
		n = tp.Choose(6)
	case 1:
		n = 1 + tp.Choose(40)
	case 2:
		n = 100 + tp.Choose(80)
	case 3:
		n = 200 + tp.Choose(220)
	}
	unroutable := 0
	cur := dsts[tp.Choose(nd)]
	size := 1 + tp.Choose(1400)
	for i := 0; i < n; i++ {
		switch tp.Weighted(10, 2, 2, 1, 1, 1, 1) {
		case 1:
			cur = dsts[tp.Choose(nd)]
		case 2:
			size = 1 + tp.Choose(1400)
		case 3:
			size = 1 + tp.Choose(size) // shorter: closes a run
		case 4:
			size = 0
		case 5:
			size = 8000 + tp.Choose(1001) // jumbo: total-bytes limit reached after a few
		case 6:
			size = 65001 + tp.Choose(100) // larger than any offload
		}
		b := make([]byte, size)
		for j := range b {
			b[j] = byte(i*31 + j)
		}
		if size >= 4 {
			binary.BigEndian.PutUint32(b, uint32(i))
		}
		if size > 0 {
			k.bufIndex[uintptr(unsafe.Pointer(&b[0]))] = i
		} else {
			k.emptyInput[normAP(cur)]++
		}
		k.bufs = append(k.bufs, b)
		k.addrs = append(k.addrs, cur)
		if isV4 && !cur.Addr().Unmap().Is4() {
			unroutable++
		}
		if size == 0 || size > 9001 {
			size = 1 + tp.Choose(1400)
		}
	}
	k.failLeft = 0
	if tp.Chance(3, 4) {
		k.failLeft = 1 + tp.Choose(12)
	}
	rc.Trace("C26 v4=%v gso=%v maxsegs=%d n=%d dsts=%d faults=%d", isV4, gso, maxSegs, bucket26(n), nd, bucket26(k.failLeft))

	written, err := w.WriteBatch(k.bufs, k.addrs)
	if rc.Failed() {
		return
	}
	if written != len(k.accepted) {
		rc.Fail("count-mismatch", "WriteBatch reported %d datagrams written, the kernel accepted %d (err=%v)", written, len(k.accepted), err)
		return
	}
	// per destination order
	last := map[netip.AddrPort]int{}
	for _, p := range k.accepted {
		if p < 0 {
			continue
		}
		if prev, ok := last[normAP(k.addrs[p])]; ok && prev > p {
			rc.Fail("reordered", "datagram %d was accepted after datagram %d for the same destination %v", p, prev, k.addrs[p])
			return
		}
		last[normAP(k.addrs[p])] = p
	}
	// nothing unroutable reached the kernel (decode would have flagged the family), nothing invented
	for p := range k.count {
		if isV4 && !k.addrs[p].Addr().Unmap().Is4() {
			rc.Fail("unroutable-sent", "datagram %d for %v was sent on an IPv4 socket", p, k.addrs[p])
			return
		}
	}
	for name, v := range k.faults {
		rc.Count(name, int64(v))
	}
	rc.Count("probe.offloaded_entries", int64(k.gsoSeen))
	rc.Count("probe.unroutable_datagrams", int64(unroutable))
	rc.Count("probe.datagrams", int64(n))
	rc.Count("probe.accepted", int64(len(k.accepted)))
	if !w.gsoSupported && gso {
		rc.Count("probe.gso_disabled_by_eio", 1)
	}
	rc.TraceQuiet(fmt.Sprintf("acc=%d gso=%d calls=%d", bucket26(len(k.accepted)), bucket26(k.gsoSeen), bucket26(k.calls)))
	if len(k.faults) > 0 && n > 3 {
		rc.Nontrivial()
	}
	rc.Sample(map[string]any{"ipv4_socket": isV4, "gso": gso, "max_segments": maxSegs, "datagrams": n, "destinations": nd, "kernel_faults": k.faults,
		"sendmmsg_calls": k.calls, "offloaded_entries": k.gsoSeen, "accepted": len(k.accepted), "reported_written": written, "unroutable": unroutable})
}

func bucket26(n int) int {
	b := 0
	for n > 0 {
		b++
		n >>= 1
	}
	return b
}
